/-
  C03 over the SOURCE (T1c): the model's `streamScaffold` IS the body of `FastaStream.write_scaffold` as translated from the
  current /repo/src/tola/fasta/stream.py (`Gen.Imp.FastaStream_write_scaffold`), when the two chunk iterators the source calls
  (`fai.get_gap_iter`, `fai.get_sequence_iter`) are the ones the model builds in `streamRow`.
-/
import AgpTpf.Proofs.ImpStream
import AgpTpf.Gen.Imp
namespace AgpTpf.C03
open AgpTpf

/-- the chunks `get_gap_iter` yields for a gap row, per the model (`streamRow`, gap case): one `BytesIO` of `n` gap characters
    per entry `n` of `gapChunkList g.length bs`.  (Never called on a fragment row: the source tests `isinstance(row, Gap)`.) -/
def modelGapIter (bs : Int) (row : Row) (gc : List Nat) : List PyRt.BytesIO :=
  match row with
  | .gap g => (gapChunkList g.length bs).map (fun n => { data := List.replicate n.toNat (gc.headD 78) })
  | .frag _ => []

/-- the chunks `get_sequence_iter` yields for a fragment row, per the model (`streamRow`, fragment case): `get_info`, then one
    `sequence_bytes` (reverse-complemented on the minus strand) per entry of `fwdChunkList` / `revChunkList`.
    `.error` exactly as the model: unknown name → `ValueError`; otherwise the error of the FIRST failing `sequence_bytes`
    (`List.mapM` stops there).  The Python iterator is a generator, so chunks before the failing one have already been written to
    `out` when the exception propagates — but `write_scaffold` then has no result, and an `Except` keeps none either: on both sides
    the outcome is that exception.  (On a gap row: `AttributeError`, never reached.) -/
def modelSeqIter (file : Bytes) (idx : List (Str × FastaInfo)) (bs : Int) (row : Row) : R (List PyRt.BytesIO) := do
  let f ← PyRt.asFrag row
  let info ← getInfo idx f.name
  let bounds := if f.strand = -1 then revChunkList f.start f.stop bs else fwdChunkList f.start f.stop bs
  bounds.mapM (fun b => do
    let rl ← sequenceBytes file info b.1 b.2
    pure { data := if f.strand = -1 then reverseComplement rl.data else rl.data })

/-- `FastaStream.write_scaffold`, as translated from the source, returns what the model's `streamScaffold` writes — same bytes,
    same exception — for EVERY `file`, index, `buffer_size`, `line_length` (also `≤ 0`) and scaffold, for every fuel of the
    `while True` loop above the length of every chunk the iterators yield for the rows of the scaffold.
    * No hypothesis on `w` / `bs`: `BytesIO.read(want)` and `writeChunk` agree for `want < 0` (read everything), `want = 0`
      (read nothing → `break`) and `want > 0` alike; the chunk arithmetic is inside the iterators, which are the model's.
    * `hfuel` is the only hypothesis and it is needed: a chunk of `L` bytes takes up to `L + 1` passes of the `while True` body
      (`L` one-byte reads at `w = 1`, plus the empty read that breaks), and the translated loop reports `Err.other` when it runs
      out of fuel, where the model's `writeChunk` carries its own fuel `L + 1` (see the examples below: fuel 3, chunk length 3).
      For gap rows `bs.toNat < fuel` is enough (`ImpStream.gapIter_length_le`).
    * `gc` is fixed to `Gen.gapCharacter` (`b"N"`), the value the model hard-wires (`Gen.gapCharacter.headD 78`). -/
theorem write_scaffold_is_source (file : Bytes) (idx : List (Str × FastaInfo)) (bs w : Int) (sc : Scaffold) (fuel : Nat)
    (hfuel : ∀ row ∈ sc.rows,
      (∀ c ∈ modelGapIter bs row Gen.gapCharacter, c.data.length < fuel) ∧
      (∀ cs, modelSeqIter file idx bs row = .ok cs → ∀ c ∈ cs, c.data.length < fuel)) :
    Gen.Imp.FastaStream_write_scaffold fuel sc w Gen.gapCharacter (modelGapIter bs) (modelSeqIter file idx bs)
      = (streamScaffold file idx bs w sc).map (·.out) := by
  unfold Gen.Imp.FastaStream_write_scaffold
  dsimp only
  rw [ImpStream.forIn_nextM_enc ImpStream.enc2
    (ImpStream.rowStep w (fun r => modelGapIter bs r Gen.gapCharacter) (modelSeqIter file idx bs)) _ (w, _)]
  · -- after the loop: the model's fold, projected to `(want, out)`, and the closing newline
    have hg : (fun r => modelGapIter bs r Gen.gapCharacter) = (fun r => ImpStream.gapIter bs r Gen.gapCharacter) := by
      funext r; cases r <;> rfl
    have hs : modelSeqIter file idx bs = ImpStream.seqIter file idx bs := by
      funext r; cases r <;> rfl
    have hhdr : ([] : Bytes) ++ strToBytes (">".toList ++ sc.name ++ "\n".toList) = [62] ++ strToBytes sc.name ++ [10] := by
      simp [strToBytes]
    have hrows := ImpStream.rows_proj file idx bs w sc.rows { out := [62] ++ strToBytes sc.name ++ [10], want := w }
    rw [hg, hs, hhdr]
    simp only [ImpStream.proj] at hrows
    rw [← hrows]
    unfold streamScaffold
    dsimp only
    cases List.foldlM (streamRow file idx bs w) { out := [62] ++ strToBytes sc.name ++ [10], want := w } sc.rows with
    | error e => rfl
    | ok log =>
      by_cases hw : log.want = w <;>
        simp [bind, Except.bind, Except.map, pure, Except.pure, ImpStream.proj, ImpStream.enc2, hw]
  · intro row hrow s
    obtain ⟨want, out⟩ := s
    have hf := hfuel row hrow
    apply ImpStream.bind_of_eq
      (X' := ImpStream.rowChunks (fun r => modelGapIter bs r Gen.gapCharacter) (modelSeqIter file idx bs) row)
    · -- the iterator the source picks
      simp only [ImpStream.rowChunks]
      split
      · rfl
      · cases modelSeqIter file idx bs row <;> rfl
    · simp only [ImpStream.rowStep]
      cases hX : ImpStream.rowChunks (fun r => modelGapIter bs r Gen.gapCharacter) (modelSeqIter file idx bs) row with
      | error e => rfl
      | ok cs =>
        have hcs : ∀ c ∈ cs, c.data.length < fuel := by
          simp only [ImpStream.rowChunks] at hX
          split at hX
          · cases hX; exact hf.1
          · exact hf.2 cs hX
        simp only [bind, Except.bind, Except.map]
        rw [ImpStream.forIn_next_enc ImpStream.enc2 (ImpStream.chunkStep w) cs (want, out)]
        intro c hc s
        obtain ⟨want, out⟩ := s
        refine ImpStream.chunk_body ImpStream.st3 ImpStream.enc2 w fuel _ _ _ ?_ ?_ ?_ c (hcs c hc) want out
        · intro want c out; rfl
        · intro want c out
          dsimp only
          by_cases h1 : (c.read want).1.isEmpty = true
          · simp [h1]
          · by_cases h2 : want - ((c.read want).1.length : Int) = 0 <;> simp [h1, h2]
        · intro want c out; rfl

/-! Examples: `>a\nACGTNN\nAC\n` (index entry: offset 3, 6 residues per line, 7 bytes per line); scaffold `s1` =
    a[1..4] forward, a gap of 5, a[3..8] on the minus strand; `buffer_size = 3`. -/

/-- the translated source, run: line length 4, fuel 4 -/
example : Gen.Imp.FastaStream_write_scaffold 4
    { name := "s1".toList, rows := [
      .frag { oid := 0, name := "a".toList, start := 1, stop := 4, strand := 1, tags := [] },
      .gap { length := 5, gapType := "scaffold".toList },
      .frag { oid := 1, name := "a".toList, start := 3, stop := 8, strand := -1, tags := [] }] }
    4 Gen.gapCharacter (modelGapIter 3)
    (modelSeqIter [62, 97, 10, 65, 67, 71, 84, 78, 78, 10, 65, 67, 10]
      [("a".toList, { length := 8, fileOffset := 3, rpl := 6, mll := 7 })] 3)
    = .ok (strToBytes ">s1\nACGT\nNNNN\nNGTN\nNAC\n".toList) := by rfl

/-- the chunks the two iterators yield there (all of length ≤ 3, so `hfuel` holds from `fuel = 4` on) -/
example : modelGapIter 3 (.gap { length := 5, gapType := "scaffold".toList }) Gen.gapCharacter
    = [{ data := [78, 78, 78] }, { data := [78, 78] }] := by decide +kernel
example : modelSeqIter [62, 97, 10, 65, 67, 71, 84, 78, 78, 10, 65, 67, 10]
    [("a".toList, { length := 8, fileOffset := 3, rpl := 6, mll := 7 })] 3
    (.frag { oid := 1, name := "a".toList, start := 3, stop := 8, strand := -1, tags := [] })
    = .ok [{ data := [71, 84, 78] }, { data := [78, 65, 67] }] := by rfl

/-- `hfuel` is satisfiable (fuel 4 for that scaffold), and it is needed and tight: with line length 1 every byte of a 3-byte chunk
    is a separate `read`, plus the empty one that breaks — 4 passes; with fuel 3 the translated loop runs out (`Err.other`) where
    the model (and Python) write the record. -/
example : ∀ row ∈ [Row.gap { length := 5, gapType := "scaffold".toList },
      Row.frag { oid := 1, name := "a".toList, start := 3, stop := 8, strand := -1, tags := [] }],
    (∀ c ∈ modelGapIter 3 row Gen.gapCharacter, c.data.length < 4) ∧
    (∀ cs, modelSeqIter [62, 97, 10, 65, 67, 71, 84, 78, 78, 10, 65, 67, 10]
        [("a".toList, { length := 8, fileOffset := 3, rpl := 6, mll := 7 })] 3 row = .ok cs → ∀ c ∈ cs, c.data.length < 4) := by
  intro row hrow
  simp only [List.mem_cons, List.not_mem_nil, or_false] at hrow
  rcases hrow with rfl | rfl
  · exact ⟨by decide +kernel, fun cs h => by cases h⟩
  · refine ⟨by decide +kernel, fun cs h => ?_⟩
    have h' : modelSeqIter [62, 97, 10, 65, 67, 71, 84, 78, 78, 10, 65, 67, 10]
        [("a".toList, { length := 8, fileOffset := 3, rpl := 6, mll := 7 })] 3
        (.frag { oid := 1, name := "a".toList, start := 3, stop := 8, strand := -1, tags := [] })
        = .ok [{ data := [71, 84, 78] }, { data := [78, 65, 67] }] := by rfl
    rw [h'] at h; cases h; decide
example : Gen.Imp.FastaStream_write_scaffold 3
    { name := "s1".toList, rows := [.gap { length := 5, gapType := "scaffold".toList }] }
    1 Gen.gapCharacter (modelGapIter 3) (modelSeqIter [] [] 3) = .error .other := by rfl
example : (streamScaffold [] [] 3 1 { name := "s1".toList, rows := [.gap { length := 5, gapType := "scaffold".toList }] }).map (·.out)
    = .ok (strToBytes ">s1\nN\nN\nN\nN\nN\n".toList) := by rfl

/-- no hypothesis on the line length: at `line_length = 0` the first `read(0)` is empty, so source and model both write the header
    only; at a negative line length `read(want)` returns the whole chunk, so both write the sequence on one line -/
example : Gen.Imp.FastaStream_write_scaffold 4
    { name := "s1".toList, rows := [.gap { length := 5, gapType := "scaffold".toList }] }
    0 Gen.gapCharacter (modelGapIter 3) (modelSeqIter [] [] 3) = .ok (strToBytes ">s1\n".toList) := by rfl
example : Gen.Imp.FastaStream_write_scaffold 4
    { name := "s1".toList, rows := [.gap { length := 5, gapType := "scaffold".toList }] }
    (-2) Gen.gapCharacter (modelGapIter 3) (modelSeqIter [] [] 3) = .ok (strToBytes ">s1\nNNNNN\n".toList) := by rfl

/-- an exception from the sequence iterator (unknown sequence name: `ValueError`) is the result, after a gap row was written -/
example : Gen.Imp.FastaStream_write_scaffold 4
    { name := "s1".toList, rows := [.gap { length := 5, gapType := "scaffold".toList },
      .frag { oid := 1, name := "zz".toList, start := 3, stop := 8, strand := -1, tags := [] }] }
    4 Gen.gapCharacter (modelGapIter 3)
    (modelSeqIter [62, 97, 10, 65, 67, 71, 84, 78, 78, 10, 65, 67, 10]
      [("a".toList, { length := 8, fileOffset := 3, rpl := 6, mll := 7 })] 3) = .error .value := by rfl

end AgpTpf.C03
