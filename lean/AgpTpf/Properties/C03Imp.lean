/-
  C03 over the SOURCE (T1c): the model's `streamScaffold` IS the body of `FastaStream.write_scaffold` as translated from the
  current /repo/src/tola/fasta/stream.py (`Gen.Imp.FastaStream_write_scaffold`), when the two chunk iterators the source calls
  (`fai.get_gap_iter`, `fai.get_sequence_iter`) are the ones the model builds in `streamRow`.
-/
import AgpTpf.Proofs.ImpStream
import AgpTpf.Gen.Imp
namespace AgpTpf.C03
open AgpTpf

/-- the chunks `get_gap_iter` yields for a gap row, per the model (`streamRow`, gap case): one `BytesIO` of `n` gap characters
    per entry `n` of `gapChunkList g.length bs`.  (Never called on a fragment row: the source tests `isinstance(row, Gap)`.) -/
def modelGapIter (bs : Int) (row : Row) (gc : List Nat) : List PyRt.BytesIO :=
  match row with
  | .gap g => (gapChunkList g.length bs).map (fun n => { data := List.replicate n.toNat (gc.headD 78) })
  | .frag _ => []

/-- the chunks `get_sequence_iter` yields for a fragment row, per the model (`streamRow`, fragment case): `get_info`, then one
    `sequence_bytes` (reverse-complemented on the minus strand) per entry of `fwdChunkList` / `revChunkList`.
    `.error` exactly as the model: unknown name → `ValueError`; otherwise the error of the FIRST failing `sequence_bytes`
    (`List.mapM` stops there).  The Python iterator is a generator, so chunks before the failing one have already been written to
    `out` when the exception propagates — but `write_scaffold` then has no result, and an `Except` keeps none either: on both sides
    the outcome is that exception.  (On a gap row: `AttributeError`, never reached.) -/
def modelSeqIter (file : Bytes) (idx : List (Str × FastaInfo)) (bs : Int) (row : Row) : R (List PyRt.BytesIO) := do
  let f ← PyRt.asFrag row
  let info ← getInfo idx f.name
  let bounds := if f.strand = -1 then revChunkList f.start f.stop bs else fwdChunkList f.start f.stop bs
  bounds.mapM (fun b => do
    let rl ← sequenceBytes file info b.1 b.2
    pure { data := if f.strand = -1 then reverseComplement rl.data else rl.data })

/-- `FastaStream.write_scaffold`, as translated from the source, returns what the model's `streamScaffold` writes — same bytes,
    same exception — for EVERY `file`, index, `buffer_size`, `line_length` (also `≤ 0`) and scaffold, for every fuel of the
    `while True` loop above the length of every chunk the iterators yield for the rows of the scaffold. -/
theorem write_scaffold_is_source (file : Bytes) (idx : List (Str × FastaInfo)) (bs w : Int) (sc : Scaffold) (fuel : Nat)
    (hfuel : ∀ row ∈ sc.rows,
      (∀ c ∈ modelGapIter bs row Gen.gapCharacter, c.data.length < fuel) ∧
      (∀ cs, modelSeqIter file idx bs row = .ok cs → ∀ c ∈ cs, c.data.length < fuel)) :
    Gen.Imp.FastaStream_write_scaffold fuel sc w Gen.gapCharacter (modelGapIter bs) (modelSeqIter file idx bs)
      = (streamScaffold file idx bs w sc).map (·.out) := by
  unfold Gen.Imp.FastaStream_write_scaffold
  dsimp only
  rw [ImpStream.forIn_nextM (ImpStream.rowStep w (fun r => modelGapIter bs r Gen.gapCharacter) (modelSeqIter file idx bs))]
  · -- after the loop: the model's fold, projected to `(want, out)`, and the closing newline
    have hg : (fun r => modelGapIter bs r Gen.gapCharacter) = (fun r => ImpStream.gapIter bs r Gen.gapCharacter) := by
      funext r; cases r <;> rfl
    have hs : modelSeqIter file idx bs = ImpStream.seqIter file idx bs := by
      funext r; cases r <;> rfl
    have hhdr : ([] : Bytes) ++ strToBytes (">".toList ++ sc.name ++ "\n".toList) = [62] ++ strToBytes sc.name ++ [10] := by
      simp [strToBytes]
    have hrows := ImpStream.rows_proj file idx bs w sc.rows { out := [62] ++ strToBytes sc.name ++ [10], want := w }
    rw [hg, hs, hhdr]
    simp only [ImpStream.proj] at hrows
    rw [← hrows]
    unfold streamScaffold
    cases List.foldlM (streamRow file idx bs w) { out := [62] ++ strToBytes sc.name ++ [10], want := w } sc.rows with
    | error e => rfl
    | ok log =>
      by_cases hw : log.want = w <;> simp [bind, Except.bind, Except.map, pure, Except.pure, ImpStream.proj, hw]
  · intro row hrow s
    obtain ⟨want, out⟩ := s
    have hf := hfuel row hrow
    apply ImpStream.bind_of_eq
      (X' := ImpStream.rowChunks (fun r => modelGapIter bs r Gen.gapCharacter) (modelSeqIter file idx bs) row)
    · -- the iterator the source picks
      simp only [ImpStream.rowChunks]
      split
      · rfl
      · cases modelSeqIter file idx bs row <;> rfl
    · simp only [ImpStream.rowStep]
      cases hX : ImpStream.rowChunks (fun r => modelGapIter bs r Gen.gapCharacter) (modelSeqIter file idx bs) row with
      | error e => rfl
      | ok cs =>
        have hcs : ∀ c ∈ cs, c.data.length < fuel := by
          simp only [ImpStream.rowChunks] at hX
          split at hX
          · cases hX; exact hf.1
          · exact hf.2 cs hX
        simp only [bind, Except.bind, Except.map]
        rw [ImpStream.forIn_next (ImpStream.chunkStep w)]
        intro c hc s
        obtain ⟨want, out⟩ := s
        refine ImpStream.chunk_body w fuel _ _ _ ?_ ?_ ?_ c (hcs c hc) want out
        · intro s; rfl
        · intro want c out
          dsimp only
          by_cases h1 : (c.read want).1.isEmpty = true
          · simp [h1]
          · by_cases h2 : want - ((c.read want).1.length : Int) = 0 <;> simp [h1, h2, bind, Except.bind]
        · intro want c out; rfl

end AgpTpf.C03
