/-
  C20 / T1c — CONSTRUCTOR GUARD for `Scaffold`.

  Every translated kernel emits a constructor call `Scaffold(name)`, `Scaffold(name, rows, original_name=…, …)` as the model's structure literal,
  whose unset fields take the MODEL's defaults (`rank := 0`, `tag := none` …).  `Gen.Imp.Scaffold___init__` is the body of the source's
  `Scaffold.__init__` as translated, `Gen.Imp.Scaffold___init___defaults` applies it to the DEFAULT VALUES OF ITS SIGNATURE in the current source.
  The theorems below say that the two agree — in particular that a scaffold nobody ranked has the integer rank 0, which is what makes
  `smart_sort_scaffolds` total on assemblies that mix ranked and never-ranked scaffolds (C20, "never fails").
  A changed default (`rank=None`) makes `Scaffold___init___defaults` untranslatable (no value of type `Int`), so this file stops building.
-/
import AgpTpf.Gen.Imp3
namespace AgpTpf.C20
open AgpTpf

/-- `Scaffold.__init__` assigns every attribute from its argument; a falsy `rows` (None or empty) gives a fresh empty list, otherwise a copy -/
theorem scaffold_init_is_source (name : Str) (rows : Option (List Row)) (tag hap : Option Str) (rank : Int) (on : Option Str)
    (ot : Option (List Str)) :
    Gen.Imp.Scaffold___init__ name rows tag hap rank on ot
      = .ok { name := name, rows := rows.getD [], tag := tag, haplotype := hap, rank := rank, originalName := on, originalTags := ot } := by
  unfold Gen.Imp.Scaffold___init__
  rcases rows with _ | _ | ⟨r, rs⟩ <;> rfl

/-- `Scaffold(name)` — what the parsers, the FASTA indexer and `add_missing_scaffolds_from_input` build — IS the model's `{ name := name }`:
    no rows, no tag, no haplotype, **rank 0**, no original name or tags -/
theorem scaffold_defaults_are_model (name : Str) :
    Gen.Imp.Scaffold___init___defaults name = .ok ({ name := name } : Scaffold) := by
  unfold Gen.Imp.Scaffold___init___defaults
  rw [scaffold_init_is_source]
  rfl

/-- the rank of a never-ranked scaffold is an integer that sorts before every rank the namer assigns (1, 2, 3) -/
theorem unranked_scaffold_sorts_first (name : Str) (s : Scaffold) (h : Gen.Imp.Scaffold___init___defaults name = .ok s) :
    s.rank = 0 ∧ s.rank < 1 := by
  rw [scaffold_defaults_are_model] at h
  cases h
  exact ⟨rfl, by show (0 : Int) < 1; omega⟩

example : Gen.Imp.Scaffold___init___defaults "scaffold_7".toList = .ok { name := "scaffold_7".toList } := by rfl
example : (Gen.Imp.Scaffold___init__ "s".toList (some [.gap { length := 5, gapType := "scaffold".toList }]) none (some "Hap1".toList) 2 none none).map (·.rank)
    = .ok 2 := by rfl

end AgpTpf.C20
