/-
  C06 (composition) — every assembly the tools BUILD is written as a valid AGP.

  `Properties/C06.lean` proves: IF every row of an assembly is `StrandOk` and `RowStrict` (fragment `start ≤ end`, gap
  `length ≥ 1` with a non-empty type) THEN `format_agp` writes a strictly valid file.  This file discharges the
  hypothesis for the two ways the tools build assemblies themselves:

   1  `remap_rows_strict`    pretext-to-asm: every row of every scaffold of every output assembly of `remap` is
                              `StrandOk ∧ RowStrict`, for ANY input and ANY Pretext assembly on which remapping completes,
                              provided the INPUT rows are and the join gap (if any) is.  (Output rows are input rows,
                              reversed input rows, pieces made by `trim_fragment` — which pass `Fragment.__init__` —,
                              input gap rows and the join gap.)
   2  `remap_agp_valid`      … hence `format_agp` of every output assembly succeeds and the file is the header lines
                              followed, scaffold by scaffold, by lines that tile the object from 1 to the scaffold's length
                              (`ValidAgpLines true`);  `written_agp_valid`: the same for the assemblies as
                              `name_assemblies` regroups them (incl. the merged `all_haplotigs`);
                              `remap_agp_valid_cli`: with the CLI's own join gap `Gap(200, "scaffold")`.
   3  `index_rows_strict`,   the assembly `index_fasta_file` derives from a FASTA (any number of records, LF/CRLF, any
      `index_agp_valid`       buffer size; `_open`: final newline missing): only forward untagged fragments with
                              `start ≤ end` and gaps ≥ 1 of type "scaffold"; its `.agp` cache text is strictly valid and
                              each object's last end = the length in the record's `.fai` entry = its number of residues.
   4  `fasta_remap_agp_valid` 3 and 2 composed: FASTA in, any Pretext assembly, AGP out — no hypothesis on rows left.

  Findings (evaluated below): the hypothesis on the INPUT gaps cannot be dropped — `parse_agp` accepts a gap line of
  length 0 (or a negative length), remapping passes the row through, and `format_agp` writes `end = start - 1`.
  Helpers: Proofs/C06BStore.lean (invariant through `remap_to_input_assembly`), C06BFuse.lean, C06BIndex.lean.
-/
import AgpTpf.Proofs.C06BFuse
import AgpTpf.Proofs.C06BIndex
import AgpTpf.Properties.C09Names
namespace AgpTpf.C06
open AgpTpf AgpTpf.C05 AgpTpf.C04

/-! ## 1  remapping builds only strict rows -/

/-- Whatever `remap` returns (any input, any Pretext assembly, any prefix / error length): if every row of the input
    is `StrandOk ∧ RowStrict` and the join gap, when there is one, is strict, then so is every row of every scaffold of
    every output assembly. -/
theorem remap_rows_strict (input ptx : List Scaffold) (prefix_ : Str) (joinGap : Option Gap) (err : Int)
    (outs : List OutAsm) (stats : Stats)
    (hin : ∀ sc ∈ input, ∀ r ∈ sc.rows, StrandOk r ∧ RowStrict r)
    (hjg : ∀ g, joinGap = some g → RowStrict (.gap g))
    (h : remap input ptx prefix_ joinGap err = .ok (outs, stats)) :
    ∀ a ∈ outs, ∀ s ∈ a.scaffolds, ∀ r ∈ s.rows, StrandOk r ∧ RowStrict r :=
  remap_good input ptx prefix_ joinGap err outs stats hin (fun g hg => ⟨trivial, hjg g hg⟩) h

/-- the same one level down, for the build `remap_to_input_assembly` returns: stored results, left-over scaffolds, and
    the input gap rows remembered for re-attaching a left-over scaffold -/
theorem remap_to_input_rows_strict (input ptx : List Scaffold) (prefix_ : Str) (joinGap : Option Gap) (err : Int)
    (b : Build)
    (hin : ∀ sc ∈ input, ∀ r ∈ sc.rows, StrandOk r ∧ RowStrict r)
    (hjg : ∀ g, joinGap = some g → RowStrict (.gap g))
    (h : remapToInput input ptx prefix_ joinGap err = .ok b) :
    (∀ r ∈ b.store, ∀ x ∈ r.o.rows, StrandOk x ∧ RowStrict x) ∧ b.joinGap = joinGap ∧
    (∀ e ∈ b.extra, (∀ x ∈ e.1.rows, StrandOk x ∧ RowStrict x) ∧
      ∀ prev gaps, e.2 = some (prev, gaps) → ∀ g ∈ gaps, RowStrict (.gap g)) := by
  obtain ⟨h1, h2, h3⟩ := remapToInput_good input ptx prefix_ joinGap err b hin (fun g hg => ⟨trivial, hjg g hg⟩) h
  exact ⟨h1, h2, fun e he => ⟨(h3 e he).1, fun prev gaps hp g hg => ((h3 e he).2 prev gaps hp g hg).2⟩⟩

/-! ## 2  … so every output assembly is written as a valid AGP -/

/-- For each output assembly, under any assembly name and header lines: `format_agp` succeeds and the written file is
    the header lines followed, scaffold by scaffold, by lines that tile the object from 1 (`p = 0`) with parts 1, 2, …
    (`i = 0`), each line with `start ≤ end`, each gap line with a type, the last end being the scaffold's length. -/
theorem remap_agp_valid (input ptx : List Scaffold) (prefix_ : Str) (joinGap : Option Gap) (err : Int)
    (outs : List OutAsm) (stats : Stats)
    (hin : ∀ sc ∈ input, ∀ r ∈ sc.rows, StrandOk r ∧ RowStrict r)
    (hjg : ∀ g, joinGap = some g → RowStrict (.gap g))
    (h : remap input ptx prefix_ joinGap err = .ok (outs, stats)) :
    ∀ a ∈ outs, ∀ (name : Str) (hdr : List Str),
      ∃ bodies : List (List (List Str)),
        formatAgp { name := name, header := hdr, scaffolds := a.scaffolds, curated := a.curated } =
          .ok (hdr.map (fun h => Gen.agpHeaderPrefix ++ h ++ ['\n']) ++ (bodies.map (List.map lineOfCols)).flatten) ∧
        Forall2 (fun (s : Scaffold) colss => colss.length = s.rows.length ∧
                    ValidAgpLines true s.name 0 0 colss s.length) a.scaffolds bodies := by
  intro a ha name hdr
  exact formatAgp_good { name := name, header := hdr, scaffolds := a.scaffolds, curated := a.curated }
    (remap_rows_strict input ptx prefix_ joinGap err outs stats hin hjg h a ha)

/-- … and so is every assembly `write_assemblies` actually writes: `name_assemblies` only regroups the scaffolds
    (a `Primary` run merges the other curated assemblies into `all_haplotigs`). -/
theorem written_agp_valid (input ptx : List Scaffold) (prefix_ : Str) (joinGap : Option Gap) (err : Int)
    (outs : List OutAsm) (stats : Stats) (root version : Str) (named : List NamedAsm)
    (hin : ∀ sc ∈ input, ∀ r ∈ sc.rows, StrandOk r ∧ RowStrict r)
    (hjg : ∀ g, joinGap = some g → RowStrict (.gap g))
    (h : remap input ptx prefix_ joinGap err = .ok (outs, stats))
    (hn : nameAssemblies outs root version = .ok named) :
    ∀ n ∈ named, ∀ (hdr : List Str),
      ∃ bodies : List (List (List Str)),
        formatAgp { name := n.name, header := hdr, scaffolds := n.scaffolds, curated := n.curated } =
          .ok (hdr.map (fun h => Gen.agpHeaderPrefix ++ h ++ ['\n']) ++ (bodies.map (List.map lineOfCols)).flatten) ∧
        Forall2 (fun (s : Scaffold) colss => colss.length = s.rows.length ∧
                    ValidAgpLines true s.name 0 0 colss s.length) n.scaffolds bodies := by
  intro n hnm hdr
  apply formatAgp_good
  intro s hs
  have hmem : s ∈ CliNames.allNamedScaffolds named := List.mem_flatMap.mpr ⟨n, hnm, hs⟩
  have hmem' : s ∈ CliNames.allScaffolds outs := (C09.name_assemblies_conserves outs root version named hn).1.mem_iff.mp hmem
  obtain ⟨a, ha, hsa⟩ := List.mem_flatMap.mp hmem'
  exact remap_rows_strict input ptx prefix_ joinGap err outs stats hin hjg h a ha s hsa

/-- the join gap pretext-to-asm configures, `Gap(200, "scaffold")`, is strict -/
theorem cli_join_gap_strict : RowStrict (.gap { length := Gen.joinGapLength, gapType := Gen.joinGapType }) := by decide

/-- as the CLI runs it: only the input assembly has to be strict -/
theorem remap_agp_valid_cli (input ptx : List Scaffold) (prefix_ : Str) (err : Int)
    (outs : List OutAsm) (stats : Stats)
    (hin : ∀ sc ∈ input, ∀ r ∈ sc.rows, StrandOk r ∧ RowStrict r)
    (h : remap input ptx prefix_ (some { length := Gen.joinGapLength, gapType := Gen.joinGapType }) err = .ok (outs, stats)) :
    ∀ a ∈ outs, ∀ (name : Str) (hdr : List Str),
      ∃ bodies : List (List (List Str)),
        formatAgp { name := name, header := hdr, scaffolds := a.scaffolds, curated := a.curated } =
          .ok (hdr.map (fun h => Gen.agpHeaderPrefix ++ h ++ ['\n']) ++ (bodies.map (List.map lineOfCols)).flatten) ∧
        Forall2 (fun (s : Scaffold) colss => colss.length = s.rows.length ∧
                    ValidAgpLines true s.name 0 0 colss s.length) a.scaffolds bodies :=
  remap_agp_valid input ptx prefix_ _ err outs stats hin
    (fun g hg => by cases hg; exact cli_join_gap_strict) h

/-! ### non-vacuity

  Scaffold C = a(+) b(−) c(+) d(+) and scaffold G = e(+), gap 7, e'(+).  Pretext: S1 = C:6-24 on the MINUS strand (cuts
  `a` and `c`, reverses the run), S2 = C:1-5 and C:25-30 (the other halves, joined with the join gap); `d` and all of G are
  left over.  Remapping completes, the output has cut pieces, reversed rows, the join gap and an input gap. -/

def jg : Gap := { length := Gen.joinGapLength, gapType := Gen.joinGapType }
def inC : Scaffold :=
  { name := ['C'], rows := [.frag { oid := 1, name := ['a'], start := 1, stop := 10, strand := 1 },
                            .frag { oid := 2, name := ['b'], start := 1, stop := 10, strand := -1 },
                            .frag { oid := 3, name := ['c'], start := 1, stop := 10, strand := 1 },
                            .frag { oid := 4, name := ['d'], start := 1, stop := 10, strand := 1 }] }
def inG : Scaffold :=
  { name := ['G'], rows := [.frag { oid := 5, name := ['e'], start := 1, stop := 10, strand := 1 },
                            .gap { length := 7, gapType := ['u'] },
                            .frag { oid := 6, name := ['e'], start := 11, stop := 20, strand := 1 }] }
def ptxC : Scaffold :=
  { name := ['S','1'], rows := [.frag { oid := 10, name := ['C'], start := 6, stop := 24, strand := -1, tags := [sPainted] }] }
def ptxD : Scaffold :=
  { name := ['S','2'], rows := [.frag { oid := 11, name := ['C'], start := 1, stop := 5, strand := 1, tags := [sPainted] },
      .frag { oid := 12, name := ['C'], start := 25, stop := 30, strand := 1, tags := [sPainted] }] }

example : (∀ sc ∈ [inC, inG], ∀ r ∈ sc.rows, StrandOk r ∧ RowStrict r) ∧ (∀ g, some jg = some g → RowStrict (.gap g)) :=
  ⟨by decide, fun g hg => by cases hg; decide⟩

/-- remapping completes; the rows that come out -/
example : (remap [inC, inG] [ptxC, ptxD] [] (some jg) 1).toOption.map (fun r => r.1.map (fun a => a.scaffolds.map (·.rows))) =
    some [[[.frag { oid := 9, name := ['c'], start := 1, stop := 4, strand := -1, tags := [Gen.cutTag] },
            .frag { oid := 2, name := ['b'], start := 1, stop := 10, strand := 1 },
            .frag { oid := 8, name := ['a'], start := 6, stop := 10, strand := -1, tags := [Gen.cutTag] }],
           [.frag { oid := 7, name := ['a'], start := 1, stop := 5, strand := 1, tags := [Gen.cutTag] }, .gap jg,
            .frag { oid := 10, name := ['c'], start := 5, stop := 10, strand := 1, tags := [Gen.cutTag] }],
           [.frag { oid := 4, name := ['d'], start := 1, stop := 10, strand := 1 }],
           [.frag { oid := 5, name := ['e'], start := 1, stop := 10, strand := 1 }, .gap { length := 7, gapType := ['u'] },
            .frag { oid := 6, name := ['e'], start := 11, stop := 20, strand := 1 }]]] := by decide +kernel

/-! ### finding: the hypothesis on the input's gap rows is needed

  `parse_agp` accepts a gap line of length 0; the row is left over by remapping (here: an empty Pretext assembly) and
  `format_agp` writes it back with `end = start - 1`. -/

def zeroGapAgp : List Str :=
  ["t\t1\t10\t1\tW\tc\t1\t10\t+\n".toList, "t\t11\t10\t2\tU\t0\tscaffold\tyes\tna\n".toList,
   "t\t11\t20\t3\tW\td\t1\t10\t+\n".toList]
def zeroGapIn : Scaffold :=
  { name := ['t'], rows := [.frag { oid := 0, name := ['c'], start := 1, stop := 10, strand := 1 },
                            .gap { length := 0, gapType := "scaffold".toList },
                            .frag { oid := 1, name := ['d'], start := 1, stop := 10, strand := 1 }] }

theorem parse_agp_accepts_empty_gap : (parseAgp zeroGapAgp).toOption.map (·.scaffolds) = some [zeroGapIn] := by
  decide +kernel

theorem remap_keeps_empty_gap :
    (remap [zeroGapIn] [] [] (some jg) 1).toOption.map (fun r => r.1.map (fun a => a.scaffolds.map (·.rows))) =
      some [[zeroGapIn.rows]] ∧
    ¬ (∀ r ∈ zeroGapIn.rows, RowStrict r) ∧
    formatAgpRows ['t'] 0 0 zeroGapIn.rows =
      .ok ["t\t1\t10\t1\tW\tc\t1\t10\t+\n".toList, "t\t11\t10\t2\tU\t0\tscaffold\tyes\tproximity_ligation\n".toList,
           "t\t11\t20\t3\tW\td\t1\t10\t+\n".toList] := by
  refine ⟨by decide +kernel, by decide, by rfl⟩

/-! ## 3  the assembly derived from a FASTA

  `RecScaffold r s` (C06BIndex): `s.name = r.name`, `s.length = number of residues of r`, every row of `s` is
  `StrandOk ∧ RowStrict ∧ IndexRow` — `IndexRow`: fragment forward (`strand = 1`) and untagged, gap of type "scaffold". -/

theorem index_row_iff (r : Row) :
    IndexRow r ↔ match r with
      | .frag f => f.strand = 1 ∧ f.tags = []
      | .gap g => g.gapType = "scaffold".toList := by
  cases r with
  | frag f => exact Iff.rfl
  | gap g => simp only [IndexRow]; rw [fastaGapType_expected]

/-- complete files: any number of well-formed records with distinct names, LF or CRLF per record, any residue symbols,
    every buffer size.  Indexing succeeds and, record by record, the derived scaffold has the record's name, the record's
    length and only strict rows. -/
theorem index_rows_strict (bs : Int) (recs : List Rec) (hne : recs ≠ []) (hwf : ∀ r ∈ recs, r.WF)
    (hnd : (recs.map Rec.name).Nodup) :
    ∃ st, indexFasta (bLines (fileOf recs)) bs = .ok st ∧ Forall2 RecScaffold recs st.scaffolds := by
  obtain ⟨st, e, hi, hs⟩ := indexFasta_fileOf bs recs hne hwf hnd
  exact ⟨st, e, (built_index_valid [] recs hnd st.idx st.scaffolds hi hs).1⟩

/-- … and the `.agp` cache text (`format_agp` of the derived assembly under any header lines — the code writes one,
    "Built from FASTA file '…'") is strictly valid: header lines, then per record lines that tile the object named like
    the record from 1, parts 1, 2, …, every span non-empty, gap lines typed, the LAST END being the length stored in the
    record's index (`.fai`) entry, which is the record's number of residues. -/
theorem index_agp_valid (bs : Int) (hdr : List Str) (recs : List Rec) (hne : recs ≠ []) (hwf : ∀ r ∈ recs, r.WF)
    (hnd : (recs.map Rec.name).Nodup) :
    ∃ st, indexFasta (bLines (fileOf recs)) bs = .ok st ∧
      ∃ bodies : List (List (List Str)),
        formatAgp { header := hdr, scaffolds := st.scaffolds } =
          .ok (hdr.map (fun h => Gen.agpHeaderPrefix ++ h ++ ['\n']) ++ (bodies.map (List.map lineOfCols)).flatten) ∧
        Forall2 (fun (r : Rec) colss => ∃ info, getInfo st.idx r.name = .ok info ∧ info.length = r.res.length ∧
                    ValidAgpLines true r.name 0 0 colss info.length) recs bodies := by
  obtain ⟨st, e, hi, hs⟩ := indexFasta_fileOf bs recs hne hwf hnd
  exact ⟨st, e, (built_index_valid hdr recs hnd st.idx st.scaffolds hi hs).2⟩

/-- the same when the file's final line terminator is missing (`last.lines = ls ++ [l]`, `l` non-empty) -/
theorem index_rows_strict_open (bs : Int) (init : List Rec) (last : Rec) (ls : List Bytes) (l : Bytes)
    (hwf : ∀ r ∈ init ++ [last], r.WF) (hnd : ((init ++ [last]).map Rec.name).Nodup)
    (hl : last.lines = ls ++ [l]) (hne : l ≠ []) :
    ∃ st, indexFasta (bLines (fileOpen init last ls l)) bs = .ok st ∧ Forall2 RecScaffold (init ++ [last]) st.scaffolds := by
  obtain ⟨st, e, hi, hs⟩ := indexFasta_fileOpen bs init last ls l hwf hnd hl hne
  exact ⟨st, e, (built_index_valid [] _ hnd st.idx st.scaffolds hi hs).1⟩

theorem index_agp_valid_open (bs : Int) (hdr : List Str) (init : List Rec) (last : Rec) (ls : List Bytes) (l : Bytes)
    (hwf : ∀ r ∈ init ++ [last], r.WF) (hnd : ((init ++ [last]).map Rec.name).Nodup)
    (hl : last.lines = ls ++ [l]) (hne : l ≠ []) :
    ∃ st, indexFasta (bLines (fileOpen init last ls l)) bs = .ok st ∧
      ∃ bodies : List (List (List Str)),
        formatAgp { header := hdr, scaffolds := st.scaffolds } =
          .ok (hdr.map (fun h => Gen.agpHeaderPrefix ++ h ++ ['\n']) ++ (bodies.map (List.map lineOfCols)).flatten) ∧
        Forall2 (fun (r : Rec) colss => ∃ info, getInfo st.idx r.name = .ok info ∧ info.length = r.res.length ∧
                    ValidAgpLines true r.name 0 0 colss info.length) (init ++ [last]) bodies := by
  obtain ⟨st, e, hi, hs⟩ := indexFasta_fileOpen bs init last ls l hwf hnd hl hne
  exact ⟨st, e, (built_index_valid hdr _ hnd st.idx st.scaffolds hi hs).2⟩

/-- **FASTA in, AGP out** (pretext-to-asm run on a FASTA file): the two halves composed.  For any well-formed FASTA, any
    buffer size, ANY Pretext assembly, prefix and error length, with the CLI's join gap: indexing succeeds, and whenever
    remapping the derived assembly completes, every output assembly is written as a strictly valid AGP — no hypothesis
    on rows is left. -/
theorem fasta_remap_agp_valid (bs : Int) (recs : List Rec) (hne : recs ≠ []) (hwf : ∀ r ∈ recs, r.WF)
    (hnd : (recs.map Rec.name).Nodup) (ptx : List Scaffold) (prefix_ : Str) (err : Int) :
    ∃ st, indexFasta (bLines (fileOf recs)) bs = .ok st ∧
      ∀ outs stats,
        remap st.scaffolds ptx prefix_ (some { length := Gen.joinGapLength, gapType := Gen.joinGapType }) err = .ok (outs, stats) →
        ∀ a ∈ outs, ∀ (name : Str) (hdr : List Str),
          ∃ bodies : List (List (List Str)),
            formatAgp { name := name, header := hdr, scaffolds := a.scaffolds, curated := a.curated } =
              .ok (hdr.map (fun h => Gen.agpHeaderPrefix ++ h ++ ['\n']) ++ (bodies.map (List.map lineOfCols)).flatten) ∧
            Forall2 (fun (s : Scaffold) colss => colss.length = s.rows.length ∧
                        ValidAgpLines true s.name 0 0 colss s.length) a.scaffolds bodies := by
  obtain ⟨st, e, hf⟩ := index_rows_strict bs recs hne hwf hnd
  refine ⟨st, e, fun outs stats h => ?_⟩
  refine remap_agp_valid_cli st.scaffolds ptx prefix_ err outs stats ?_ h
  intro sc hsc r hr
  obtain ⟨rc, _, hp⟩ := Forall2.mem_right hf sc hsc
  exact ⟨(hp.2.2 r hr).1, (hp.2.2 r hr).2.1⟩

/-! ### non-vacuity: `>a\nACGTNN\nAC\n>b x\r\nnnAC\r\n` (one LF record, one CRLF record), buffer size 3 -/

def recA : Rec := { hdr := [97], le := [10], lines := [[65, 67, 71, 84, 78, 78], [65, 67]] }
def recB : Rec := { hdr := [98, 32, 120], le := [13, 10], lines := [[110, 110, 65, 67]] }

example : [recA, recB] ≠ [] ∧ (∀ r ∈ [recA, recB], r.WF) ∧ ([recA, recB].map Rec.name).Nodup := by
  refine ⟨by simp, ?_, by decide⟩
  intro r hr
  simp only [List.mem_cons, List.not_mem_nil, or_false] at hr
  rcases hr with rfl | rfl
  · exact ⟨Or.inl ⟨rfl, by decide⟩, by decide, by decide, by decide, by decide⟩
  · exact ⟨Or.inr rfl, by decide, by decide, by decide, by decide⟩

/-- what is indexed and written for it (evaluated): gap rows of length 2, last ends 8 and 4 = the `.fai` lengths -/
example : (indexFasta (bLines (fileOf [recA, recB])) 3).toOption.map
      (fun st => (st.idx.map (fun e => (e.1, e.2.length)),
                  (formatAgp { header := ["Built from FASTA file 'x.fa'".toList], scaffolds := st.scaffolds }).toOption)) =
    some ([(['a'], 8), (['b'], 4)],
          some ["# Built from FASTA file 'x.fa'\n".toList,
                "a\t1\t4\t1\tW\ta\t1\t4\t+\n".toList, "a\t5\t6\t2\tU\t2\tscaffold\tyes\tproximity_ligation\n".toList,
                "a\t7\t8\t3\tW\ta\t7\t8\t+\n".toList,
                "b\t1\t2\t1\tU\t2\tscaffold\tyes\tproximity_ligation\n".toList, "b\t3\t4\t2\tW\tb\t3\t4\t+\n".toList]) := by
  decide +kernel

/-- `fasta_remap_agp_valid`'s premise is satisfiable: the derived assembly remapped with a Pretext scaffold that is
    record `a` reversed (record `b` is left over; its leading gap is not carried into the left-over scaffold) -/
example : (indexFasta (bLines (fileOf [recA, recB])) 3).toOption.bind (fun st =>
      (remap st.scaffolds
          [{ name := ['S','1'],
             rows := [.frag { oid := 50, name := ['a'], start := 1, stop := 8, strand := -1, tags := [sPainted] }] }]
          "SUPER_".toList (some jg) 1).toOption.map
        (fun r => r.1.map (fun a => (formatAgp { scaffolds := a.scaffolds }).toOption))) =
    some [some ["SUPER_1\t1\t2\t1\tW\ta\t7\t8\t-\n".toList,
                "SUPER_1\t3\t4\t2\tU\t2\tscaffold\tyes\tproximity_ligation\n".toList,
                "SUPER_1\t5\t8\t3\tW\ta\t1\t4\t-\n".toList, "b\t1\t2\t1\tW\tb\t3\t4\t+\n".toList]] := by
  decide +kernel

end AgpTpf.C06
