/-
  C16 (part) — WHICH files one `pretext-to-asm --output` run opens, and that they are pairwise different.

  Model: Model/CliPlan.lean (`parseOutputFile`, `nameAssemblies`, `namedDict`, `outputPlan`, `cliOutputPlan`, `runPlan`);
  helpers: Proofs/CliPlanPath.lean, CliPlanNames.lean, CliPlanNodup.lean.  File NAMES (final path component) only; every
  planned file lies in the directory of the `--output` file.  Domain: ASCII where case matters, keys without '/'.

   P1  `named_assembly_names_nodup`   the `name`s given by `name_assemblies` are pairwise different
       `named_assembly_files_nodup`   (weaker hypotheses) the assembly FILE names `{name}{.curated}{suffix}` are
       + `decide` counter-examples for every hypothesis (candidate findings: two assemblies written to one file)
   P2  `output_plan_nodup`, `cli_output_plan_nodup`, `output_plan_succeeds`
       `no_clobber_run`, `no_clobber_run_free`, `clobber_run`   (C16.no_clobber_exit without its `Nodup` hypothesis)
-/
import AgpTpf.Proofs.CliPlanNodup
import AgpTpf.Properties.C16
namespace AgpTpf.C16
open AgpTpf AgpTpf.Outputs AgpTpf.CliNames AgpTpf.CliPlan

/-! ## P1  names -/

/-- **P1** `named` = the assemblies renamed by `name_assemblies(outs, root, version)`.  If
    * `hlow`  the keys of the dict are pairwise different even after `.lower()` (`None` stays `None`),
    * `hadd`  in the single-haplotype branch (a `None` key, no `Primary`) with a `Haplotig` assembly: no key is
              `additional_haplotig` up to case,
    * `hall`  in the `Primary` branch when something is merged into `all_haplotigs`: no key is `all_haplotig` up to case,
    then the `name`s are pairwise different.  No hypothesis on `root` / `version`. -/
theorem named_assembly_names_nodup (outs : List OutAsm) (root version : Str) (named : List NamedAsm)
    (h : nameAssemblies outs root version = .ok named)
    (hlow : (outs.map (fun a => a.key.map lowerStr)).Nodup)
    (hadd : ¬ HasKey outs (some sPrimary) → HasKey outs none → HasKey outs (some sHaplotig) →
      ∀ a ∈ outs, a.key.map lowerStr ≠ some "additional_haplotig".toList)
    (hall : HasKey outs (some sPrimary) → (∃ a ∈ outs, a.key ≠ some sPrimary ∧ a.curated = true) →
      ∀ a ∈ outs, a.key.map lowerStr ≠ some "all_haplotig".toList) :
    (named.map (·.name)).Nodup := by
  apply named_names_nodup outs root version named h
  refine ⟨?_, hadd, ?_⟩
  · unfold List.Nodup at hlow
    rw [List.pairwise_map] at hlow
    exact hlow
  · intro hp hne
    apply hall hp
    obtain ⟨a, ha⟩ := List.exists_mem_of_ne_nil _ hne
    unfold others at ha
    obtain ⟨h1, h2⟩ := List.mem_filter.1 ha
    exact ⟨a, h1, by simpa using h2⟩

/-- **P1, file level** what is needed for the FILES `{name}{".curated" if curated}{suffix}` to differ is less:
    * `hkeys` the keys are pairwise different (a dict),
    * `hcase` two keys that are equal up to case belong to one curated and one non-curated assembly,
    * `hadd`  in the single-haplotype branch with a `Haplotig` assembly: no CURATED assembly is keyed
              `additional_haplotig` up to case. -/
theorem named_assembly_files_nodup (outs : List OutAsm) (root version suffix : Str) (named : List NamedAsm)
    (h : nameAssemblies outs root version = .ok named)
    (hkeys : (outs.map (·.key)).Nodup)
    (hcase : outs.Pairwise (fun a b => a.key.map lowerStr = b.key.map lowerStr → a.curated ≠ b.curated))
    (hadd : ¬ HasKey outs (some sPrimary) → HasKey outs none → HasKey outs (some sHaplotig) →
      ∀ a ∈ outs, a.curated = true → a.key.map lowerStr ≠ some "additional_haplotig".toList) :
    (named.map (fun n => outputFileName n suffix)).Nodup ∧
    (named.map (fun n => (n.name, n.curated))).Nodup := by
  have hfs : FileSafe outs := by
    refine ⟨?_, hadd⟩
    unfold List.Nodup at hkeys
    rw [List.pairwise_map] at hkeys
    exact hkeys.and hcase
  have hst := named_stems_nodup outs root version named h hfs
  exact ⟨file_names_nodup suffix named (named_ends outs root version named h) hst, hst⟩

/-- the hypotheses of P1 imply those of the file-level statement -/
theorem names_hyps_imply_files_hyps (outs : List OutAsm)
    (hlow : (outs.map (fun a => a.key.map lowerStr)).Nodup) :
    (outs.map (·.key)).Nodup ∧
    outs.Pairwise (fun a b => a.key.map lowerStr = b.key.map lowerStr → a.curated ≠ b.curated) := by
  unfold List.Nodup at hlow ⊢
  rw [List.pairwise_map] at hlow ⊢
  exact ⟨hlow.imp (fun hne e => hne (by rw [e])), hlow.imp (fun hne e => absurd e hne)⟩

/-! ### P1: every hypothesis is needed (`decide` counter-examples; what the real code does is in the comments) -/

private def sc (n : String) : Scaffold := { name := n.toList }
private def names (r : R (List NamedAsm)) : R (List Str) := r.map (·.map (·.name))
private def files (r : R (List NamedAsm)) : R (List Str) := r.map (·.map (fun n => outputFileName n ".agp".toList))

/-- `hlow` (multi-haplotype branch): keys `Hap1` and `hap1`, both curated → the same name, the same file.
    Real code: `name_assemblies({"Hap1": A, "hap1": B}, "x", "1")` names both `x.hap1.1.primary`; `write_assemblies`
    opens `x.hap1.1.primary.curated.agp` twice (second open truncates the first under `--clobber`, FileExistsError
    under `--no-clobber` although nothing pre-existed).  NOT reachable through `ScaffoldNamer`, which keeps one
    spelling per lower-cased haplotype name (`Namer.getSetHaplotype`). -/
example : names (nameAssemblies [{ key := some "Hap1".toList, curated := true, scaffolds := [sc "A"] },
                                 { key := some "hap1".toList, curated := true, scaffolds := [sc "B"] }] ['x'] ['1']) =
    .ok ["x.hap1.1.primary".toList, "x.hap1.1.primary".toList] := by rfl

/-- `hadd`: single-haplotype map, a haplotype called `additional_haplotig` next to `Haplotig`-tagged scaffolds → both
    assemblies are written to `x.1.additional_haplotigs.curated.agp`.  Real code: the same (checked with
    `name_assemblies` + `write_assemblies`, /verif/lean/tasks/w5cli/cex.py). -/
example : files (nameAssemblies [{ key := none, curated := true, scaffolds := [sc "S"] },
                                 { key := some "additional_haplotig".toList, curated := true, scaffolds := [sc "A"] },
                                 { key := some sHaplotig, curated := false, scaffolds := [sc "H_1"] }] ['x'] ['1']) =
    .ok ["x.1.primary.curated.agp".toList, "x.1.additional_haplotigs.curated.agp".toList,
         "x.1.additional_haplotigs.curated.agp".toList] := by rfl

/-- `hall`: `Primary` branch, a NON-curated assembly keyed `all_haplotig` → its `name` equals that of the merged
    `all_haplotigs` assembly (P1 fails) but the files differ (`…all_haplotigs.agp` / `…all_haplotigs.curated.agp`):
    the file-level statement needs no such hypothesis.  Real code: the same. -/
example :
    let r := nameAssemblies [{ key := some sPrimary, curated := true, scaffolds := [sc "S"] },
                             { key := some "Hap2".toList, curated := true, scaffolds := [sc "A"] },
                             { key := some "all_haplotig".toList, curated := false, scaffolds := [sc "Q"] }] ['x'] ['1']
    names r = .ok ["x.1.primary".toList, "x.1.all_haplotigs".toList, "x.1.all_haplotigs".toList] ∧
    files r = .ok ["x.1.primary.curated.agp".toList, "x.1.all_haplotigs.agp".toList,
                   "x.1.all_haplotigs.curated.agp".toList] := by
  exact ⟨rfl, rfl⟩

/-- `hlow` is more than the files need: a haplotype spelt `contaminant` (curated) next to the `Contaminant` tag
    (non-curated) in a single-haplotype map → equal names, different files.  Real code: the same. -/
example :
    let r := nameAssemblies [{ key := none, curated := true, scaffolds := [sc "S"] },
                             { key := some "contaminant".toList, curated := true, scaffolds := [sc "A"] },
                             { key := some sContaminant, curated := false, scaffolds := [sc "C"] }] ['x'] ['1']
    names r = .ok ["x.1.primary".toList, "x.1.contaminants".toList, "x.1.contaminants".toList] ∧
    files r = .ok ["x.1.primary.curated.agp".toList, "x.1.contaminants.curated.agp".toList,
                   "x.1.contaminants.agp".toList] := by
  exact ⟨rfl, rfl⟩

/-- `hcase` of the file-level statement: the same two keys with the SAME `curated` flag collide -/
example : files (nameAssemblies [{ key := none, curated := true, scaffolds := [sc "S"] },
                                 { key := some "contaminant".toList, curated := false, scaffolds := [sc "A"] },
                                 { key := some sContaminant, curated := false, scaffolds := [sc "C"] }] ['x'] ['1']) =
    .ok ["x.1.primary.curated.agp".toList, "x.1.contaminants.agp".toList, "x.1.contaminants.agp".toList] := by rfl

/-! ## P2  the whole plan -/

/-- **P2** `parse_output_file` accepted the `--output` name, `name_assemblies` returned `named` (file-level
    hypotheses of P1): every file name in the plan occurs once.  `named'` is `named` itself or the dict built from it
    (`namedDict named`; the same list when the keys of `named` are pairwise different). -/
theorem output_plan_nodup (outName : Str) (writeLog : Bool) (outs : List OutAsm) (prefix_ : Str)
    (fmt : Fmt) (root version suffix : Str) (named named' : List NamedAsm) (plan : List Str)
    (hparse : parseOutputFile outName = .ok (fmt, root, version, suffix))
    (hnamed : nameAssemblies outs root version = .ok named)
    (hd : named' = named ∨ named' = namedDict named)
    (hplan : outputPlan outName writeLog named' fmt suffix prefix_ = .ok plan)
    (hkeys : (outs.map (·.key)).Nodup)
    (hcase : outs.Pairwise (fun a b => a.key.map lowerStr = b.key.map lowerStr → a.curated ≠ b.curated))
    (hadd : ¬ HasKey outs (some sPrimary) → HasKey outs none → HasKey outs (some sHaplotig) →
      ∀ a ∈ outs, a.curated = true → a.key.map lowerStr ≠ some "additional_haplotig".toList) :
    plan.Nodup := by
  have hst := (named_assembly_files_nodup outs root version suffix named hnamed hkeys hcase hadd).2
  have hends := named_ends outs root version named hnamed
  have hsfx := (parseOutputFile_suffix outName fmt root version suffix hparse).1
  rcases hd with rfl | rfl
  · exact plan_nodup outName writeLog _ fmt suffix prefix_ plan hplan hsfx hends hst
  · exact plan_nodup outName writeLog _ fmt suffix prefix_ plan hplan hsfx
      (fun n hn => hends n (namedDict_mem named n hn)) (namedDict_stems named hst)

/-- the same for the composed `cliOutputPlan` (= `parse_output_file`, `name_assemblies`, dict, plan) -/
theorem cli_output_plan_nodup (outName : Str) (writeLog : Bool) (outs : List OutAsm) (prefix_ : Str) (plan : List Str)
    (hplan : cliOutputPlan outName writeLog outs prefix_ = .ok plan)
    (hkeys : (outs.map (·.key)).Nodup)
    (hcase : outs.Pairwise (fun a b => a.key.map lowerStr = b.key.map lowerStr → a.curated ≠ b.curated))
    (hadd : ¬ HasKey outs (some sPrimary) → HasKey outs none → HasKey outs (some sHaplotig) →
      ∀ a ∈ outs, a.curated = true → a.key.map lowerStr ≠ some "additional_haplotig".toList) :
    plan.Nodup := by
  obtain ⟨fmt, root, version, sfx, named, hp, hn, ho⟩ := cliOutputPlan_ok outName writeLog outs prefix_ plan hplan
  exact output_plan_nodup outName writeLog outs prefix_ fmt root version sfx named _ plan hp hn (.inr rfl) ho hkeys hcase hadd

/-- once `parse_output_file` and `name_assemblies` have succeeded nothing in the plan raises (no `ValueError` from
    `with_suffix` / `with_name`), for an output name without '/' -/
theorem output_plan_succeeds (outName : Str) (writeLog : Bool) (outs : List OutAsm) (prefix_ : Str)
    (fmt : Fmt) (root version suffix : Str) (named : List NamedAsm)
    (hparse : parseOutputFile outName = .ok (fmt, root, version, suffix))
    (hnamed : nameAssemblies outs root version = .ok named) (hsl : '/' ∉ outName) :
    (∃ plan, outputPlan outName writeLog named fmt suffix prefix_ = .ok plan) ∧
    (∃ plan, cliOutputPlan outName writeLog outs prefix_ = .ok plan) := by
  obtain ⟨hsfx, _, hne⟩ := parseOutputFile_suffix outName fmt root version suffix hparse
  have hends := named_ends outs root version named hnamed
  refine ⟨outputPlan_isOk outName writeLog named fmt suffix prefix_ hne hsl hsfx hends, ?_⟩
  obtain ⟨plan, hp⟩ := outputPlan_isOk outName writeLog (namedDict named) fmt suffix prefix_ hne hsl hsfx
    (fun n hn => hends n (namedDict_mem named n hn))
  refine ⟨plan, ?_⟩
  rw [cliOutputPlan_eq]
  have hl : logFileName outName = .ok (pathStem outName ++ ".log".toList) :=
    withSuffix_isOk _ _ hne (by decide) (by decide)
  have : cliRest outName writeLog outs prefix_ = .ok plan := by
    unfold cliRest
    rw [hparse, infoYamlName_isOk outName hne hsl]
    simp only [bind, Except.bind]
    rw [hnamed]
    exact hp
  rw [this, hl]
  cases writeLog <;> rfl

/-! ### the run -/

/-- **`no_clobber_run`**: `C16.no_clobber_exit` for the planned files, its `Nodup` hypothesis discharged: with
    `--no-clobber` the run fails iff some planned file pre-exists, the error names the first such file in the order
    the run opens them, and every file that existed before keeps its content. -/
theorem no_clobber_run (outName : Str) (writeLog : Bool) (outs : List OutAsm) (prefix_ : Str) (plan : List Str)
    (hplan : cliOutputPlan outName writeLog outs prefix_ = .ok plan)
    (hkeys : (outs.map (·.key)).Nodup)
    (hcase : outs.Pairwise (fun a b => a.key.map lowerStr = b.key.map lowerStr → a.curated ≠ b.curated))
    (hadd : ¬ HasKey outs (some sPrimary) → HasKey outs none → HasKey outs (some sHaplotig) →
      ∀ a ∈ outs, a.curated = true → a.key.map lowerStr ≠ some "additional_haplotig".toList)
    (fs₀ : FS) :
    ((runPlan false fs₀ plan).exit ≠ 0 ↔ ∃ p ∈ plan, dHas fs₀ p = true) ∧
    ((runPlan false fs₀ plan).exit = 0 ∨ (runPlan false fs₀ plan).exit = 1) ∧
    (runPlan false fs₀ plan).errorPath = plan.find? (fun q => dHas fs₀ q) ∧
    (∀ p v, dGet? fs₀ p = some v → dGet? (runPlan false fs₀ plan).fs p = some v) := by
  have hnd := cli_output_plan_nodup outName writeLog outs prefix_ plan hplan hkeys hcase hadd
  obtain ⟨h1, h2, h3⟩ := no_clobber_exit fs₀ plan hnd
  exact ⟨h1, h2, h3, fun p v hv => no_clobber_preserves fs₀ plan p v hv⟩

/-- nothing pre-exists: exit status 0 and every planned file is written by this run -/
theorem no_clobber_run_free (outName : Str) (writeLog : Bool) (outs : List OutAsm) (prefix_ : Str) (plan : List Str)
    (hplan : cliOutputPlan outName writeLog outs prefix_ = .ok plan)
    (hkeys : (outs.map (·.key)).Nodup)
    (hcase : outs.Pairwise (fun a b => a.key.map lowerStr = b.key.map lowerStr → a.curated ≠ b.curated))
    (hadd : ¬ HasKey outs (some sPrimary) → HasKey outs none → HasKey outs (some sHaplotig) →
      ∀ a ∈ outs, a.curated = true → a.key.map lowerStr ≠ some "additional_haplotig".toList)
    (fs₀ : FS) (hfree : ∀ p ∈ plan, dHas fs₀ p = false) :
    (runPlan false fs₀ plan).exit = 0 ∧ (runPlan false fs₀ plan).errorPath = none ∧
    ∀ p ∈ plan, dGet? (runPlan false fs₀ plan).fs p = some Content.new :=
  no_clobber_exit_free fs₀ plan (cli_output_plan_nodup outName writeLog outs prefix_ plan hplan hkeys hcase hadd) hfree

/-- **`clobber_run`** (default `--clobber`): exit status 0, every planned file completely (re)written, every other
    path untouched — whatever the plan is (no hypothesis: a name planned twice is simply written twice, which is
    exactly how two assemblies end up in one file in the counter-examples above). -/
theorem clobber_run (fs₀ : FS) (plan : List Str) :
    (runPlan true fs₀ plan).exit = 0 ∧ (runPlan true fs₀ plan).errorPath = none ∧
    (∀ p ∈ plan, dGet? (runPlan true fs₀ plan).fs p = some Content.new) ∧
    (∀ q, q ∉ plan → dGet? (runPlan true fs₀ plan).fs q = dGet? fs₀ q) :=
  clobber_rewrites fs₀ plan

/-! ### non-vacuity and the failing cases -/

private def tsc (n : String) (rank : Int) (orig : String) : Scaffold :=
  { name := n.toList, rank := rank, originalName := some orig.toList,
    rows := [Row.frag { name := ['c'], start := 1, stop := 9, strand := 1 }] }

/-- single-haplotype run: primary (two chromosomes' worth), haplotigs, contaminants -/
private def demo : List OutAsm :=
  [{ key := none, curated := true, scaffolds := [tsc "SUPER_1" 1 "Sc1", tsc "SUPER_1_unloc_1" 1 "Sc1", tsc "scaffold_7" 3 "Sc9"] },
   { key := some sHaplotig, curated := false, scaffolds := [tsc "H_1" 3 "Sc2"] },
   { key := some sContaminant, curated := false, scaffolds := [tsc "c_1" 3 "Sc3"] }]

private def demoPlan : List Str :=
  ["x.2.log".toList, "x.2.info.yaml".toList, "x.2.primary.curated.fa".toList, "x.2.primary.curated.agp".toList,
   "x.2.additional_haplotigs.curated.fa".toList, "x.2.additional_haplotigs.curated.agp".toList,
   "x.2.contaminants.fa".toList, "x.2.contaminants.agp".toList, "x.2.primary.chromosome.list.csv".toList,
   "x.2.chr_report.csv".toList]

example : cliOutputPlan "x.2.fa".toList true demo "SUPER_".toList = .ok demoPlan := by rfl
example : parseOutputFile "x.2.fa".toList = .ok (.FASTA, ['x'], ['2'], ".fa".toList) := by rfl
example : '/' ∉ "x.2.fa".toList := by decide
example : (demo.map (·.key)).Nodup ∧ (demo.map (fun a => a.key.map lowerStr)).Nodup ∧
    demo.Pairwise (fun a b => a.key.map lowerStr = b.key.map lowerStr → a.curated ≠ b.curated) := by decide
example : ¬ HasKey demo (some sPrimary) ∧ HasKey demo none ∧ HasKey demo (some sHaplotig) ∧
    (∀ a ∈ demo, a.key.map lowerStr ≠ some "additional_haplotig".toList) ∧
    ¬ (∃ a ∈ demo, a.key ≠ some sPrimary ∧ a.curated = true ∧ HasKey demo (some sPrimary)) := by decide
/-- the run on a directory that already holds the haplotig AGP: exit 1, error names that file, it stays `.old` -/
example :
    let fs₀ : FS := [("x.2.additional_haplotigs.curated.agp".toList, .old)]
    (runPlan false fs₀ demoPlan).exit = 1 ∧
    (runPlan false fs₀ demoPlan).errorPath = some "x.2.additional_haplotigs.curated.agp".toList ∧
    dGet? (runPlan false fs₀ demoPlan).fs "x.2.additional_haplotigs.curated.agp".toList = some .old := by decide
example : (runPlan false [] demoPlan).exit = 0 ∧ (runPlan false [] demoPlan).fs = demoPlan.map (·, .new) := by decide

/-- **finding (P2 fails without `hadd`)**: the `additional_haplotig` counter-example end to end — the plan names
    `x.1.additional_haplotigs.curated.agp` twice, so with `--no-clobber` the run dies with "already exists" on a file
    it has just created itself (exit 1, empty directory), and with `--clobber` the second assembly silently replaces
    the first.  REAL CLI (/verif/lean/tasks/w5cli/e2e: three one-contig scaffolds tagged `Painted`, `additional_haplotig`, `Haplotig`;
    `pretext-to-asm -a in.tpf -p ptx.agp -o out.agp`): prints "Created: 'out.1.additional_haplotigs.curated.agp'" then
    "Overwrote: 'out.1.additional_haplotigs.curated.agp'", exit 0, the 8000 bp haplotype scaffold is in no output file;
    with `--no-clobber` in an empty directory: "ERROR: Output file 'out.1.additional_haplotigs.curated.agp' already
    exists", exit 1. -/
example :
    let outs : List OutAsm :=
      [{ key := none, curated := true, scaffolds := [sc "S"] },
       { key := some "additional_haplotig".toList, curated := true, scaffolds := [sc "A"] },
       { key := some sHaplotig, curated := false, scaffolds := [sc "H_1"] }]
    let plan := ["x.info.yaml".toList, "x.1.primary.curated.agp".toList, "x.1.additional_haplotigs.curated.agp".toList,
                 "x.1.additional_haplotigs.curated.agp".toList]
    cliOutputPlan "x.agp".toList false outs "SUPER_".toList = .ok plan ∧ ¬ plan.Nodup ∧
    (runPlan false [] plan).exit = 1 ∧
    (runPlan false [] plan).errorPath = some "x.1.additional_haplotigs.curated.agp".toList ∧
    (runPlan true [] plan).exit = 0 := by
  refine ⟨rfl, by decide, by decide, by decide, by decide⟩

/-- **finding (dict key collision, cf. `C09.name_assemblies_keys_distinct`)**: a haplotype literally called
    `additional_haplotigs` next to `Haplotig`: `ret_asm["additional_haplotigs"]` is assigned twice, the curated
    haplotype assembly is dropped from the dict and written NOWHERE (the plan is duplicate-free, one assembly short).
    Real code: `name_assemblies` returns keys `[None, 'additional_haplotigs']` only (/verif/lean/tasks/w5cli/cex.py); REAL CLI
    (/verif/lean/tasks/w5cli/e2e, tags `Painted`, `additional_haplotigs`, `Haplotig`, `-p ptx2.agp`): exit 0, no warning, and
    SCAFFOLD_2 (the `additional_haplotigs` haplotype) occurs in none of the files written. -/
example :
    let outs : List OutAsm :=
      [{ key := none, curated := true, scaffolds := [sc "S"] },
       { key := some "additional_haplotigs".toList, curated := true, scaffolds := [sc "A"] },
       { key := some sHaplotig, curated := false, scaffolds := [sc "H_1"] }]
    cliOutputPlan "x.agp".toList false outs "SUPER_".toList =
      .ok ["x.info.yaml".toList, "x.1.primary.curated.agp".toList, "x.1.additional_haplotigs.curated.agp".toList] ∧
    (nameAssemblies outs ['x'] ['1']).map (fun l => (namedDict l).map (fun n => n.scaffolds.map (·.name))) =
      .ok [[['S']], [['H', '_', '1']]] := by
  exact ⟨rfl, rfl⟩

end AgpTpf.C16
