/-
  C03 / C04 over the SOURCE: the byte-offset arithmetic of `FastaIndex.sequence_bytes` AS TRANSLATED from the current
  /repo/src/tola/fasta/index.py into a plan of `seek` / `seek(…, 1)` / `read` operations (`Gen/Kernels.lean`), run on a file
  cursor (`Kernels.runPlan`: the spec of what the three operations mean).  On a laid-out record the plan returns exactly the
  addressed residues, and no single read asks for more than one line.
-/
import AgpTpf.Properties.C03
import AgpTpf.Proofs.Kernels
namespace AgpTpf.C03
open AgpTpf AgpTpf.ChunkProofs AgpTpf.WrapProofs AgpTpf.SeqProofs AgpTpf.StreamProofs

/-- the plan the current source executes for `sequence_bytes(info, start, end)` -/
def srcPlan (info : FastaInfo) (start stop : Int) : List Gen.K.IOp :=
  Gen.K.FastaIndex_sequence_bytes_plan (start := start) (end_v := stop) (info_file_offset := info.fileOffset)
    (info_max_line_length := info.mll) (info_residues_per_line := info.rpl)

/-- running the source's plan on a laid-out record returns exactly `res[s:e]`, reading at most `min(rpl, e − s)` bytes at a time -/
theorem source_sequence_bytes_slice {file res : Bytes} {off R M : Nat} (info : FastaInfo)
    (hoff : info.fileOffset = off) (hrpl : info.rpl = R) (hmll : info.mll = M)
    (hR : 1 ≤ R) (hM : R ≤ M) (h : LaidOut file off R M res)
    (s e : Nat) (hs : s < e) (he : e ≤ res.length) :
    ∃ rl, Kernels.runPlan file (srcPlan info ((s : Int) + 1) (e : Int)) 0 {} = .ok rl ∧
      rl.data = (res.drop s).take (e - s) ∧
      ∀ r ∈ rl.reads, 0 ≤ r ∧ r ≤ (R : Int) ∧ r ≤ ((e - s : Nat) : Int) := by
  have h0 : info.rpl ≠ 0 := by rw [hrpl]; omega
  have hle : info.rpl ≤ info.mll := by rw [hrpl, hmll]; exact_mod_cast hM
  unfold srcPlan
  rw [← Kernels.sequence_bytes_plan_eq file info _ _ h0 hle]
  exact sequence_bytes_slice info hoff hrpl hmll hR hM h s e hs he

/-- the plan for residues 3…7 of `>a\nACGTNN\nAC\n` (index entry offset 3, 6 residues per line, 7 bytes per line) -/
example : srcPlan { length := 8, fileOffset := 3, rpl := 6, mll := 7 } 3 7 =
    [.seek 5, .read 4, .skip 1, .read 1] := by decide
example : (Kernels.runPlan [62, 97, 10, 65, 67, 71, 84, 78, 78, 10, 65, 67, 10]
    (srcPlan { length := 8, fileOffset := 3, rpl := 6, mll := 7 } 3 7) 0 {}).map (·.data) = .ok [71, 84, 78, 78, 65] := by rfl

end AgpTpf.C03
