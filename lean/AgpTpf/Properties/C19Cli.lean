/-
  C19 through the command: `asm-format --qc-overlaps` (Model/AsmFormat.lean) and the scan behind it
  (`Assembly.find_overlapping_fragments` / `all_vs_all_fragments` with the scaffold of every fragment:
  `findOverlappingFragments`, `overlappingPairsNamed`).

  The report of one `process_fh` is a list of `OvPair` = ((f1, s1), (f2, s2)) (fragment, name of its scaffold); `[]`
  means `report_overlaps` is not called.  Its rendering on STDERR is `reportOverlapsText`.
  Helper lemmas: Proofs/AsmFormatQc.lean, Proofs/AsmFormatRun.lean.
-/
import AgpTpf.Properties.C19
import AgpTpf.Proofs.AsmFormatQc
import AgpTpf.Proofs.AsmFormatCli
namespace AgpTpf.C19
open AgpTpf AgpTpf.AsmFormat

/-- the scan itself, for ANY assembly: the reported pairs are the overlapping ones among all position pairs `i < j` of
    the fragment list in scan order (scaffold after scaffold) — each unordered pair once, within a scaffold and across
    scaffolds alike; forgetting the scaffold names gives exactly `overlappingPairs` of all fragments; every fragment
    comes with the name of a scaffold that holds it. -/
theorem find_overlapping_named_spec (a : Assembly) :
    findOverlappingFragments a =
      ((allPairs a.fragmentsWithScaffold).filter (fun p => p.1.1.overlaps p.2.1)).map mkOvPair ∧
    (findOverlappingFragments a).map (fun p => (p.f1, p.f2)) = overlappingPairs a.allFragments ∧
    a.fragmentsWithScaffold.map (·.1) = a.allFragments ∧
    (∀ f n, (f, n) ∈ a.fragmentsWithScaffold ↔ ∃ s ∈ a.scaffolds, f ∈ s.fragments ∧ s.name = n) := by
  refine ⟨overlappingPairsNamed_spec _, ?_, fragmentsWithScaffold_fst a, mem_fragmentsWithScaffold a⟩
  unfold findOverlappingFragments
  rw [overlappingPairsNamed_proj, fragmentsWithScaffold_fst]

/-- `asm-format --qc-overlaps`, one `process_fh` that does not raise (any input text, any formats):
    the pairs handed to `report_overlaps` are exactly `overlappingPairs` of all fragments of the parsed assembly, in
    scan order, each with the names of the scaffolds holding the two fragments; nothing is reported iff no two
    fragments overlap; and the report never changes the text written (same result, pairs aside, without the option). -/
theorem qc_report_spec (inFmt : Fmt) (asmName : Str) (lines : List Str) (outFmt : Option OutFmt)
    (text : Str) (pairs : List OvPair) (h : processFh inFmt asmName lines outFmt true = .ok (text, pairs)) :
    ∃ asm, parseFh inFmt asmName lines = .ok asm ∧
      pairs.map (fun p => (p.f1, p.f2)) = overlappingPairs asm.allFragments ∧
      pairs = ((allPairs asm.fragmentsWithScaffold).filter (fun p => p.1.1.overlaps p.2.1)).map mkOvPair ∧
      (∀ p ∈ pairs, (∃ s ∈ asm.scaffolds, p.f1 ∈ s.fragments ∧ s.name = p.s1) ∧
                    (∃ s ∈ asm.scaffolds, p.f2 ∈ s.fragments ∧ s.name = p.s2) ∧ p.f1.overlaps p.f2 = true) ∧
      (pairs = [] ↔ ∀ i j : Nat, i < j → ∀ f g, asm.allFragments[i]? = some f → asm.allFragments[j]? = some g →
                      f.overlaps g = false) ∧
      processFh inFmt asmName lines outFmt false = .ok (text, []) := by
  obtain ⟨asm, hp, hpairs, hw⟩ := (processFh_ok_iff _ _ _ _ _ _ _).1 h
  simp only [if_true] at hpairs
  subst hpairs
  obtain ⟨s1, s2, _, s4⟩ := find_overlapping_named_spec asm
  refine ⟨asm, hp, s2, s1, ?_, findOverlapping_nil_iff asm, (processFh_ok_iff _ _ _ _ _ _ _).2 ⟨asm, hp, rfl, hw⟩⟩
  intro p hpm
  rw [s1] at hpm
  simp only [List.mem_map, List.mem_filter] at hpm
  obtain ⟨⟨⟨f, n⟩, ⟨g, m⟩⟩, ⟨hmem, hov⟩, rfl⟩ := hpm
  obtain ⟨i, j, _, hi, hj⟩ := (mem_allPairs_iff _ _ _).1 hmem
  exact ⟨(s4 f n).1 (List.mem_of_getElem? hi), (s4 g m).1 (List.mem_of_getElem? hj), hov⟩

/-- …and the report can always be printed: `report_overlaps` (which formats every fragment with `Fragment.__str__`)
    cannot raise on the pairs of a parsed assembly -/
theorem qc_report_renders (inFmt : Fmt) (asmName : Str) (lines : List Str) (outFmt : Option OutFmt)
    (text : Str) (pairs : List OvPair) (h : processFh inFmt asmName lines outFmt true = .ok (text, pairs)) :
    ∃ t, reportOverlapsText asmName pairs = .ok t := by
  obtain ⟨asm, hp, _, _, hmem, _⟩ := qc_report_spec inFmt asmName lines outFmt text pairs h
  have hrows := parseFh_rowsParsed hp
  apply reportOverlapsText_ok
  intro p hpm
  obtain ⟨⟨s1, hs1, hf1, _⟩, ⟨s2, hs2, hf2, _⟩, _⟩ := hmem p hpm
  exact ⟨(hrows s1 hs1 _ ((mem_fragmentsOf _ _).1 hf1)).1, (hrows s2 hs2 _ ((mem_fragmentsOf _ _).1 hf2)).1⟩

/-- without the option nothing is ever reported -/
theorem no_qc_no_report (inFmt : Fmt) (asmName : Str) (lines : List Str) (outFmt : Option OutFmt)
    (text : Str) (pairs : List OvPair) (h : processFh inFmt asmName lines outFmt false = .ok (text, pairs)) :
    pairs = [] := by
  obtain ⟨asm, _, hpairs, _⟩ := (processFh_ok_iff _ _ _ _ _ _ _).1 h
  simpa using hpairs

/-- the whole run, any number of files (or STDIN), failing or not: `--qc-overlaps` changes neither the text written
    nor the exception the run ends with -/
theorem qc_never_changes_output (o : AsmFormatOpts) (files : List (Str × List Str)) (stdin : List Str) (q : Bool) :
    (asmFormat { o with qcOverlaps := q } files stdin).written = (asmFormat o files stdin).written ∧
    (asmFormat { o with qcOverlaps := q } files stdin).error = (asmFormat o files stdin).error := by
  cases files with
  | nil =>
    have e1 : asmFormat { o with qcOverlaps := q } [] stdin =
        match processFh (stdinInFmt o) (stdinAsmName o) stdin (outFmtSel o.format o.outputFile) q with
        | .ok (text, pairs) => ({ written := text } : AsmFormatResult).addReport (stdinAsmName o) pairs
        | .error e =>
          { (({} : AsmFormatResult).addReport (stdinAsmName o)
              (reportBeforeFailure (stdinInFmt o) (stdinAsmName o) stdin q)) with error := some e } := rfl
    rw [e1, asmFormat_stdin o]
    have := processFh_qc_irrelevant (stdinInFmt o) (stdinAsmName o) stdin (outFmtSel o.format o.outputFile) q o.qcOverlaps
    cases h1 : processFh (stdinInFmt o) (stdinAsmName o) stdin (outFmtSel o.format o.outputFile) q with
    | error e =>
      cases h2 : processFh (stdinInFmt o) (stdinAsmName o) stdin (outFmtSel o.format o.outputFile) o.qcOverlaps with
      | error e' =>
        rw [h1, h2] at this; cases this
        exact ⟨by simp only [addReport_written], rfl⟩
      | ok r => rw [h1, h2] at this; cases this
    | ok r =>
      cases h2 : processFh (stdinInFmt o) (stdinAsmName o) stdin (outFmtSel o.format o.outputFile) o.qcOverlaps with
      | error e' => rw [h1, h2] at this; cases this
      | ok r' =>
        rw [h1, h2] at this
        simp only [Except.map, Except.ok.injEq] at this
        obtain ⟨t, p⟩ := r; obtain ⟨t', p'⟩ := r'
        simp only at this; subst this
        exact ⟨by simp only [addReport_written], by simp only [addReport_error]⟩
  | cons f rest =>
    rw [asmFormat_files, asmFormat_files]
    show (asmFormatLoop { o with qcOverlaps := q } (outFmtSel o.format o.outputFile) (f :: rest) {}).written = _ ∧ _
    have key : ∀ (files : List (Str × List Str)) (acc acc' : AsmFormatResult),
        acc.written = acc'.written → acc.error = acc'.error →
        (asmFormatLoop { o with qcOverlaps := q } (outFmtSel o.format o.outputFile) files acc).written =
          (asmFormatLoop o (outFmtSel o.format o.outputFile) files acc').written ∧
        (asmFormatLoop { o with qcOverlaps := q } (outFmtSel o.format o.outputFile) files acc).error =
          (asmFormatLoop o (outFmtSel o.format o.outputFile) files acc').error := by
      intro files
      induction files with
      | nil => intro acc acc' hw he; exact ⟨hw, he⟩
      | cons g t ih =>
        intro acc acc' hw he
        rw [asmFormatLoop_cons, asmFormatLoop_cons]
        have := processFh_qc_irrelevant (fileInFmt o g) (fileAsmName o g) (fileLinesRead o g)
          (outFmtSel o.format o.outputFile) q o.qcOverlaps
        have e1 : processFile { o with qcOverlaps := q } (outFmtSel o.format o.outputFile) g =
            processFh (fileInFmt o g) (fileAsmName o g) (fileLinesRead o g) (outFmtSel o.format o.outputFile) q := rfl
        have e2 : processFile o (outFmtSel o.format o.outputFile) g =
            processFh (fileInFmt o g) (fileAsmName o g) (fileLinesRead o g) (outFmtSel o.format o.outputFile) o.qcOverlaps := rfl
        rw [e1, e2]
        cases h1 : processFh (fileInFmt o g) (fileAsmName o g) (fileLinesRead o g) (outFmtSel o.format o.outputFile) q with
        | error e =>
          cases h2 : processFh (fileInFmt o g) (fileAsmName o g) (fileLinesRead o g) (outFmtSel o.format o.outputFile) o.qcOverlaps with
          | error e' => exact ⟨by simp only [addReport_written, hw], rfl⟩
          | ok r => rw [h1, h2] at this; cases this
        | ok r =>
          cases h2 : processFh (fileInFmt o g) (fileAsmName o g) (fileLinesRead o g) (outFmtSel o.format o.outputFile) o.qcOverlaps with
          | error e' => rw [h1, h2] at this; cases this
          | ok r' =>
            rw [h1, h2] at this
            simp only [Except.map, Except.ok.injEq] at this
            obtain ⟨t1, p⟩ := r; obtain ⟨t', p'⟩ := r'
            simp only at this; subst this
            exact ih _ _ (by simp only [addReport_written, hw]) (by simp only [addReport_error, he])
    exact key (f :: rest) {} {} rfl rfl

/-- the reports of a whole run that ends without exception: one call of `report_overlaps` for every file whose
    assembly has overlapping fragments, in file order, under the assembly name of that file -/
theorem qc_reports_of_run (o : AsmFormatOpts) (f : Str × List Str) (rest : List (Str × List Str)) (stdin : List Str)
    (h : (asmFormat o (f :: rest) stdin).error = none) :
    ∃ outs : List (Str × List OvPair),
      C05.Forall2 (fun file out => processFile o (outFmtSel o.format o.outputFile) file = .ok out) (f :: rest) outs ∧
      (asmFormat o (f :: rest) stdin).reports =
        ((f :: rest).zip outs).flatMap (fun fo => if fo.2.2.isEmpty then [] else [(fileAsmName o fo.1, fo.2.2)]) := by
  rw [asmFormat_files] at h ⊢
  obtain ⟨k, outs, h1, _, _, h4⟩ := asmFormatLoop_spec o (outFmtSel o.format o.outputFile) (f :: rest) {}
  rcases h4 with ⟨hk, _, hr⟩ | ⟨g, e, _, _, he⟩
  · rw [hk, List.take_length] at h1
    exact ⟨outs, h1, by rw [hr]; rfl⟩
  · rw [he] at h; cases h

/-! ## non-vacuity, on the run `asm-format a.agp --qc-overlaps` of Model/AsmFormat.lean's tests -/

private def lines1 : List Str :=
  ["s1\t1\t5\t1\tW\tc\t1\t5\t+\ts1\n".toList, "s1\t6\t8\t2\tU\t3\tscaffold\tyes\tproximity_ligation\n".toList,
   "s1\t9\t12\t3\tW\tc\t4\t7\t-\n".toList, "s2\t1\t3\t1\tW\tc\t5\t7\t?\n".toList]
private def g1 : Fragment := { oid := 0, name := ['c'], start := 1, stop := 5, strand := 1, tags := [['s', '1']] }
private def g2 : Fragment := { oid := 1, name := ['c'], start := 4, stop := 7, strand := -1 }
private def g3 : Fragment := { oid := 2, name := ['c'], start := 5, stop := 7, strand := 0 }

/-- three pairs: one inside scaffold s1, two across s1 / s2 (the real run prints exactly these three) -/
example : processFh .AGP ['a'] lines1 (some .AGP) true =
    .ok (lines1.flatten, [⟨g1, "s1".toList, g2, "s1".toList⟩, ⟨g1, "s1".toList, g3, "s2".toList⟩, ⟨g2, "s1".toList, g3, "s2".toList⟩]) := by
  decide +kernel
/-- no overlap: nothing reported -/
example : processFh .AGP ['a'] ["s1\t1\t5\t1\tW\tc\t1\t5\t+\n".toList, "s2\t1\t5\t1\tW\tc\t6\t10\t+\n".toList] (some .AGP) true =
    .ok ("s1\t1\t5\t1\tW\tc\t1\t5\t+\ns2\t1\t5\t1\tW\tc\t6\t10\t+\n".toList, []) := by decide +kernel
example : (asmFormat { qcOverlaps := true } [("a.agp".toList, lines1)] []).error = none := by decide +kernel

end AgpTpf.C19
