/- C16 — statements under construction -/
import AgpTpf.Model.Cache
import AgpTpf.Model.Outputs
import AgpTpf.Model.Remap
namespace AgpTpf.C16
theorem placeholder : True := trivial
end AgpTpf.C16
