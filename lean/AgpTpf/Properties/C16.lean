/-
  C16 — `--no-clobber` never alters an existing file.

  Model: `Outputs.runOutputs clobber fs₀ outs` — the run opens its output files `outs` (log, info yaml, assembly
  files, AGP companions, CSV reports; whatever the chosen format / --write-log / number of assemblies make that list)
  one after the other with mode "w" (clobber) or "x" (no-clobber); the first FileExistsError ends the run with exit
  status 1 and `errorPath` = the path named in the error message.  A file's `Content` is `.old` (bytes from before the
  run) or `.new` (completely written by this run).

  All statements are for ALL initial file systems `fs₀` and ALL output lists `outs` (so in particular for every format,
  --write-log setting, single/multi assembly, and every subset of pre-existing outputs).
-/
import AgpTpf.Proofs.C16
namespace AgpTpf.C16
open AgpTpf AgpTpf.Outputs

/-- With `--no-clobber`, every file that existed before the run has exactly the content it had before, whatever the
    outputs are, whether or not the run fails (no hypothesis on `outs`: duplicates allowed). -/
theorem no_clobber_preserves (fs₀ : FS) (outs : List Str) (p : Str) (v : Content)
    (h : dGet? fs₀ p = some v) : dGet? (runOutputs false fs₀ outs).fs p = some v :=
  run_x_preserves fs₀ outs p v h

/-- Stronger form: the final file system is the initial one (same entries, same order) followed only by files this
    run created. -/
theorem no_clobber_only_adds (fs₀ : FS) (outs : List Str) :
    ∃ added : FS, (runOutputs false fs₀ outs).fs = fs₀ ++ added ∧ ∀ e ∈ added, e.2 = Content.new :=
  run_x_prefix fs₀ outs

/-- With `--no-clobber` and pairwise different output paths: if some output pre-exists the run exits with status 1
    and the error names the FIRST pre-existing output (in the order the run opens them). -/
theorem no_clobber_exit_collision (fs₀ : FS) (outs : List Str) (hnd : outs.Nodup)
    (hex : ∃ p ∈ outs, dHas fs₀ p = true) :
    (runOutputs false fs₀ outs).exit = 1 ∧
    ∃ p, (runOutputs false fs₀ outs).errorPath = some p ∧ outs.find? (fun q => dHas fs₀ q) = some p ∧
      p ∈ outs ∧ dHas fs₀ p = true := by
  have he := run_x_error fs₀ outs hnd
  obtain ⟨p0, hp0, hp0'⟩ := hex
  cases hf : outs.find? (fun q => dHas fs₀ q) with
  | none =>
    have := List.find?_eq_none.1 hf p0 hp0
    simp [hp0'] at this
  | some p =>
    have hmem := List.mem_of_find?_eq_some hf
    have hhas : dHas fs₀ p = true := by simpa using List.find?_some hf
    refine ⟨?_, p, by rw [he, hf], rfl, hmem, hhas⟩
    rw [run_x_exit, he, hf]; rfl

/-- With `--no-clobber`, pairwise different output paths and no pre-existing output: exit status 0, no error, and
    every output file is completely written by this run. -/
theorem no_clobber_exit_free (fs₀ : FS) (outs : List Str) (hnd : outs.Nodup)
    (hfree : ∀ p ∈ outs, dHas fs₀ p = false) :
    (runOutputs false fs₀ outs).exit = 0 ∧ (runOutputs false fs₀ outs).errorPath = none ∧
    ∀ p ∈ outs, dGet? (runOutputs false fs₀ outs).fs p = some Content.new := by
  have he := run_x_error fs₀ outs hnd
  have hf : outs.find? (fun q => dHas fs₀ q) = none := by
    apply List.find?_eq_none.2
    intro q hq; simp [hfree q hq]
  refine ⟨?_, by rw [he, hf], run_x_all_new fs₀ outs hnd hfree⟩
  rw [run_x_exit, he, hf]; rfl

/-- The two cases as one equivalence (the form asked for): the run fails iff some output pre-exists, and the error
    path is always the first pre-existing output. -/
theorem no_clobber_exit (fs₀ : FS) (outs : List Str) (hnd : outs.Nodup) :
    ((runOutputs false fs₀ outs).exit ≠ 0 ↔ ∃ p ∈ outs, dHas fs₀ p = true) ∧
    ((runOutputs false fs₀ outs).exit = 0 ∨ (runOutputs false fs₀ outs).exit = 1) ∧
    (runOutputs false fs₀ outs).errorPath = outs.find? (fun q => dHas fs₀ q) := by
  refine ⟨?_, ?_, run_x_error fs₀ outs hnd⟩
  · constructor
    · intro hne
      apply Classical.byContradiction
      intro hno
      have hfree : ∀ p ∈ outs, dHas fs₀ p = false := by
        intro p hp
        cases h : dHas fs₀ p with
        | false => rfl
        | true => exact absurd ⟨p, hp, h⟩ hno
      exact hne (no_clobber_exit_free fs₀ outs hnd hfree).1
    · intro hex
      rw [(no_clobber_exit_collision fs₀ outs hnd hex).1]; decide
  · rw [run_x_exit]; split <;> simp

/-- Without the `Nodup` hypothesis `no_clobber_exit` is false: a run that names the same output path twice collides
    with the file it has just created itself (exit 1 although nothing pre-existed). -/
example : (runOutputs false [] [['a'], ['a']]).exit = 1 ∧ dHas ([] : FS) ['a'] = false := by decide

/-- With the default `--clobber` the run succeeds, every output file is completely rewritten, and every other path
    keeps its content (all `outs`, duplicates allowed). -/
theorem clobber_rewrites (fs₀ : FS) (outs : List Str) :
    (runOutputs true fs₀ outs).exit = 0 ∧ (runOutputs true fs₀ outs).errorPath = none ∧
    (∀ p ∈ outs, dGet? (runOutputs true fs₀ outs).fs p = some Content.new) ∧
    (∀ q, q ∉ outs → dGet? (runOutputs true fs₀ outs).fs q = dGet? fs₀ q) :=
  ⟨(run_w_ok fs₀ outs).1, (run_w_ok fs₀ outs).2, fun p hp => run_w_new fs₀ outs p hp,
   fun q hq => run_w_other fs₀ outs q hq⟩

/-! ### non-vacuity: a run with log, info yaml, assembly file, AGP companion, CSV report -/

private def pLog : Str := ['o', '.', 'l', 'o', 'g']
private def pYaml : Str := ['o', '.', 'i', 'n', 'f', 'o', '.', 'y', 'a', 'm', 'l']
private def pFa : Str := ['o', '.', 'f', 'a']
private def pAgp : Str := ['o', '.', 'a', 'g', 'p']
private def pCsv : Str := ['o', '.', 'c', 's', 'v']
private def pIn : Str := ['i', 'n', '.', 'a', 'g', 'p']
private def outs5 : List Str := [pLog, pYaml, pFa, pAgp, pCsv]
/-- input file and two of the five outputs (the AGP companion and the CSV) pre-exist -/
private def fsPre : FS := [(pIn, .old), (pCsv, .old), (pAgp, .old)]

example : outs5.Nodup := by decide
example : ∃ p ∈ outs5, dHas fsPre p = true := ⟨pAgp, by decide, by decide⟩
example : ∀ p ∈ outs5, dHas [(pIn, Content.old)] p = false := by decide
/-- the failing run: exit 1, error names `o.agp` (opened before `o.csv`), old files still `.old`; the three files
    opened before the collision were created (they did not exist before, so nothing pre-existing was altered) -/
example : (runOutputs false fsPre outs5).exit = 1 ∧ (runOutputs false fsPre outs5).errorPath = some pAgp ∧
    (runOutputs false fsPre outs5).fs =
      fsPre ++ [(pLog, .new), (pYaml, .new), (pFa, .new)] := by decide
example : (runOutputs false [(pIn, .old)] outs5).exit = 0 ∧
    (runOutputs false [(pIn, .old)] outs5).fs = (pIn, .old) :: outs5.map (·, .new) := by decide
example : (runOutputs true fsPre outs5).exit = 0 ∧
    (runOutputs true fsPre outs5).fs =
      [(pIn, .old), (pCsv, .new), (pAgp, .new), (pLog, .new), (pYaml, .new), (pFa, .new)] := by decide
private def subsets {α} : List α → List (List α)
  | [] => [[]]
  | x :: xs => subsets xs ++ (subsets xs).map (x :: ·)
example : (subsets outs5).length = 32 := by decide
/-- every non-empty subset of the five outputs pre-existing: exit 1 and all pre-existing files unchanged
    (exhaustive check of the 31 subsets, as an instance of the theorems above) -/
example : ∀ sub ∈ subsets outs5, sub ≠ [] →
    let fs₀ : FS := (pIn, .old) :: sub.map (·, .old)
    (runOutputs false fs₀ outs5).exit = 1 ∧ (runOutputs false fs₀ outs5).fs.take fs₀.length = fs₀ := by
  decide

end AgpTpf.C16
