/-
  C19 — Overlap QC reports exactly the overlapping contig pairs; interval predicates are mutually consistent.
  Only property theorems + non-vacuity examples live here.
-/
import AgpTpf.Model.Basic
namespace AgpTpf.C19
open AgpTpf

/-- base `x` of contig `f.name` lies in fragment `f` -/
def Covers (f : Fragment) (x : Int) : Prop := f.start ≤ x ∧ x ≤ f.stop
/-- what `Fragment.__init__` guarantees -/
def Valid (f : Fragment) : Prop := f.start ≤ f.stop

/-- overlap ⇔ same contig and a shared base — for ALL integer coordinates -/
theorem overlaps_iff_share_base (a b : Fragment) (ha : Valid a) (hb : Valid b) :
    a.overlaps b = true ↔ a.name = b.name ∧ ∃ x, Covers a x ∧ Covers b x := by
  unfold Fragment.overlaps Covers Valid at *
  constructor
  · intro h
    have : a.name = b.name := by grind
    exact ⟨this, max a.start b.start, by grind⟩
  · rintro ⟨hn, x, hx⟩
    grind

theorem overlaps_symm (a b : Fragment) : a.overlaps b = b.overlaps a := by
  unfold Fragment.overlaps
  by_cases h : a.name = b.name
  · simp only [h, ne_eq, not_true_eq_false, ↓reduceIte]
    exact decide_eq_decide.mpr ⟨fun ⟨x, y⟩ => ⟨y, x⟩, fun ⟨x, y⟩ => ⟨y, x⟩⟩
  · have h' : ¬ b.name = a.name := fun e => h e.symm
    simp [h, h']

/-- the overlap length is the size of the intersection: the shared bases are exactly `n` consecutive ones -/
theorem overlap_length_is_intersection_size (a b : Fragment) (n : Int) (h : a.overlapLength b = some n) :
    a.name = b.name ∧ 1 ≤ n ∧ ∃ lo, ∀ x, (Covers a x ∧ Covers b x) ↔ (lo ≤ x ∧ x < lo + n) := by
  unfold Fragment.overlapLength at h
  have hn : a.name = b.name := by grind
  refine ⟨hn, by grind, max a.start b.start, ?_⟩
  intro x
  unfold Covers
  grind

/-- … and it is absent exactly when nothing is shared (or the contigs differ) -/
theorem overlap_length_none_iff (a b : Fragment) :
    a.overlapLength b = none ↔ (a.name ≠ b.name ∨ ¬ ∃ x, Covers a x ∧ Covers b x) := by
  unfold Fragment.overlapLength Covers
  by_cases hn : a.name = b.name
  · simp only [hn, ne_eq, not_true_eq_false, ↓reduceIte, false_or]
    constructor
    · intro h
      rintro ⟨x, h1, h2⟩
      grind
    · intro h
      have := fun hx => h ⟨max a.start b.start, hx⟩
      grind
  · simp [hn]

theorem overlaps_iff_overlap_length (a b : Fragment) (ha : Valid a) (hb : Valid b) :
    a.overlaps b = true ↔ (a.overlapLength b).isSome = true := by
  unfold Fragment.overlaps Fragment.overlapLength Valid at *
  grind

/-- two same-named intervals abut exactly when the gap between them is zero -/
theorem abuts_iff_gap_zero (a b : Fragment) (ha : Valid a) (hb : Valid b) :
    a.abuts b = true ↔ a.gapBetween b = some 0 := by
  unfold Fragment.abuts Fragment.gapBetween Valid at *
  grind

/-- exactly one of overlap / abut / positive gap holds for same-named valid intervals -/
theorem trichotomy (a b : Fragment) (ha : Valid a) (hb : Valid b) (hn : a.name = b.name) :
    (a.overlaps b = true ∧ a.abuts b = false ∧ a.gapBetween b = none) ∨
    (a.overlaps b = false ∧ a.abuts b = true ∧ a.gapBetween b = some 0) ∨
    (a.overlaps b = false ∧ a.abuts b = false ∧ ∃ g, 0 < g ∧ a.gapBetween b = some g) := by
  unfold Fragment.overlaps Fragment.abuts Fragment.gapBetween Valid at *
  by_cases h1 : a.stop ≥ b.start ∧ a.start ≤ b.stop
  · left; grind
  · by_cases h2 : a.stop + 1 = b.start ∨ b.stop + 1 = a.start
    · right; left; grind
    · right; right
      refine ⟨by grind, by grind, max a.start b.start - min a.stop b.stop - 1, by grind, by grind⟩

/-- differently named fragments never overlap, abut or have a gap -/
theorem different_contigs (a b : Fragment) (hn : a.name ≠ b.name) :
    a.overlaps b = false ∧ a.abuts b = false ∧ a.gapBetween b = none ∧ a.overlapLength b = none := by
  unfold Fragment.overlaps Fragment.abuts Fragment.gapBetween Fragment.overlapLength
  simp [hn]

/-- all index pairs `i < j` of a list, in the scan order of `all_vs_all_fragments` -/
def allPairs {α} : List α → List (α × α)
  | [] => []
  | x :: r => r.map (fun y => (x, y)) ++ allPairs r

/-- the scan reports exactly the overlapping pairs, each unordered pair (position pair `i < j`) once, in scan order -/
theorem find_overlapping_spec (frags : List Fragment) :
    overlappingPairs frags = (allPairs frags).filter (fun p => p.1.overlaps p.2) := by
  induction frags with
  | nil => rfl
  | cons f r ih =>
    simp only [overlappingPairs, allPairs, List.filter_append, ih]
    congr 1
    clear ih
    induction r with
    | nil => rfl
    | cons g r' ih' =>
      simp only [List.filter, List.map]
      cases h : f.overlaps g <;> simp [ih']

theorem mem_overlapping_iff (frags : List Fragment) (p q : Fragment) :
    (p, q) ∈ overlappingPairs frags ↔ (p, q) ∈ allPairs frags ∧ p.overlaps q = true := by
  rw [find_overlapping_spec]; simp [List.mem_filter]

/-- positions: `allPairs` is exactly the set of `(l[i], l[j])` with `i < j` -/
theorem mem_allPairs_iff {α} (l : List α) (x y : α) :
    (x, y) ∈ allPairs l ↔ ∃ i j : Nat, i < j ∧ l[i]? = some x ∧ l[j]? = some y := by
  induction l with
  | nil => simp [allPairs]
  | cons a r ih =>
    simp only [allPairs, List.mem_append, List.mem_map, Prod.mk.injEq]
    constructor
    · rintro (⟨z, hz, rfl, rfl⟩ | h)
      · obtain ⟨k, hk⟩ := List.getElem?_of_mem hz
        exact ⟨0, k + 1, by omega, by simp, by simpa using hk⟩
      · obtain ⟨i, j, hij, hi, hj⟩ := ih.mp h
        exact ⟨i + 1, j + 1, by omega, by simpa using hi, by simpa using hj⟩
    · rintro ⟨i, j, hij, hi, hj⟩
      cases i with
      | zero =>
        left
        cases j with
        | zero => omega
        | succ j' =>
          simp at hi hj
          exact ⟨y, List.mem_of_getElem? hj, hi, rfl⟩
      | succ i' =>
        right
        cases j with
        | zero => omega
        | succ j' =>
          simp at hi hj
          exact ih.mpr ⟨i', j', by omega, hi, hj⟩

/-! non-vacuity: concrete fragments meeting the hypotheses, in each branch of the trichotomy -/
private def f1 : Fragment := { name := ['c'], start := 1, stop := 10, strand := 1 }
private def f2 : Fragment := { name := ['c'], start := 10, stop := 20, strand := -1 }
private def f3 : Fragment := { name := ['c'], start := 11, stop := 20, strand := 1 }
private def f4 : Fragment := { name := ['c'], start := 15, stop := 20, strand := 1 }
example : Valid f1 ∧ Valid f2 ∧ f1.overlaps f2 = true ∧ f1.overlapLength f2 = some 1 := by
  unfold Valid; decide
example : f1.abuts f3 = true ∧ f1.gapBetween f3 = some 0 ∧ f1.overlaps f3 = false := by decide
example : f1.gapBetween f4 = some 4 ∧ f1.abuts f4 = false := by decide
example : overlappingPairs [f1, f2, f3, f4] = [(f1, f2), (f2, f3), (f2, f4), (f3, f4)] := by decide

end AgpTpf.C19
