/-
  C05 / T1c — CONSTRUCTOR GUARDS for `Gap`, `Fragment` and `FastaInfo` (see `Properties/C20ImpCtor.lean` for the idea): the translated kernels
  emit constructor calls as the model's literals / `mkFragment`; here the `__init__` bodies of the current source, as translated, are proved to
  build exactly those (with the signature's default `tags=()`), including the two ValueErrors of `Fragment.__init__` and their order.
-/
import AgpTpf.Gen.Imp3
namespace AgpTpf.C05
open AgpTpf

theorem gap_init_is_source (n : Int) (t : Str) : Gen.Imp.Gap___init__ n t = .ok { length := n, gapType := t } := rfl

/-- `Fragment.__init__` = the model's `mkFragment`: strand outside {0, 1, -1} is a ValueError, then start > end is a ValueError -/
theorem fragment_init_is_source (oid : Nat) (name : Str) (a b s : Int) (tags : List Str) :
    Gen.Imp.Fragment___init__ name a b s tags oid = mkFragment oid name a b s tags := by
  unfold Gen.Imp.Fragment___init__ mkFragment
  by_cases h0 : s = 0
  · subst h0; by_cases h : a > b <;> simp [h]
  · by_cases h1 : s = 1
    · subst h1; by_cases h : a > b <;> simp [h]
    · by_cases h2 : s = -1
      · subst h2; by_cases h : a > b <;> simp [h]
      · simp [h0, h1, h2]

/-- the default of `tags` is the empty tuple -/
theorem fragment_defaults_are_model (oid : Nat) (name : Str) (a b s : Int) :
    Gen.Imp.Fragment___init___defaults name a b s oid = mkFragment oid name a b s [] := by
  unfold Gen.Imp.Fragment___init___defaults
  exact fragment_init_is_source oid name a b s []

theorem fastainfo_init_is_source (l o r m : Int) :
    Gen.Imp.FastaInfo___init__ l o r m = .ok { length := l, fileOffset := o, rpl := r, mll := m } := rfl

example : Gen.Imp.Fragment___init___defaults "c".toList 5 4 1 7 = .error .value := by rfl
example : Gen.Imp.Fragment___init___defaults "c".toList 4 5 2 7 = .error .value := by rfl
example : (Gen.Imp.Fragment___init___defaults "c".toList 4 5 (-1) 7).map (·.oid) = .ok 7 := by rfl

end AgpTpf.C05
