/-
  C10 (continued) — chromosome numbering with SEVERAL haplotypes:
  "in multi-haplotype maps the first haplotype decides and homologues grouped with it share the number".

  Model: `buildGroups`, `groupsHaveErrors`, `groupFirstLength`, `multiChrList`, `nameGroup` and the `name_chromosomes`
  block of `assembliesFused` (`nameChromosomes`, proved equal to that block in `finishAssemblies_eq_name`).
  Python: `ChrNamer`, `ChrGroup` in /repo/src/tola/assembly/build_utils.py.
  Everything here is for `haplotypes_seen = h1 :: others`, `others ≠ []` (the case `[h]` is in `Properties/C10.lean`).

  Vocabulary (definitions in `Proofs/C10Multi*.lean`):
    * `Entry = Str × Nat`           `(haplotype key, id)` — one `ChrNamer.add_scaffold` call
    * `origOf fs sid`               Pretext name (`original_name`) of the fused scaffold `sid`
    * `startsNew fs seg e`          the cut rule of `build_groups` (`starts_new_iff` spells it out)
    * `segments fs entries`         decomposition of the entries by that rule (`segments_characterised`)
    * `segGroup fs haps seg`        the `ChrGroup.data` obtained by adding the entries of `seg` to a fresh group;
                                    `= haps.map (fun h => (h, hapChrs fs h seg))` (`seg_group_eq`)
    * `hapOrigs fs h seg`           distinct Pretext names of haplotype `h` in `seg`, first-occurrence order
    * `idsOf fs h o seg`            ids of the `h`-scaffolds with Pretext name `o` in `seg`, in order
    * `hapChrs fs h seg`            `(hapOrigs fs h seg).map (fun o => (o, idsOf fs h o seg))`   = `group.data[h]`
    * `groupsSpec fs haps entries`  `(segments fs entries).map (segGroup fs haps)`
    * `firstLen`, `sortedGroups`    `length_of_first_haplotype` (total) and the stable descending sort by it
    * `chrCount fs seg e`, `chrIndex fs seg e`   number of chromosomes of `e`'s haplotype in the group of `seg`, and
                                    the position of `e`'s chromosome among them
    * `chrLetter c i`               `[]` if `c = 1`, else the one-letter string `chr(ord "A" + i)`

  PROVED (all at full strength for the model):
    M1 `build_groups_multi`, `build_groups_multi_fails_iff`, `build_groups_multi_error` (+ `segments_characterised`,
       `starts_new_iff`, `seg_group_eq`, `hap_origs_spec`): `buildGroups = .ok (groupsSpec …)` iff every entry has a non-empty
       `original_name`; otherwise `ValueError`.  The `KeyError` branch (`Err.key`) and the `IndexError` of `ids[0]` are
       UNREACHABLE.
    M2 `group_errors_iff`, `group_errors_multi`
    M3 `numbering_multi`, `numbering_multi_error`, `numbering_multi_unloc`, `name_group_multi`
    M4 `homologues_share_number`
    M5 `names_unique_multi`
    and `assemblies_fused_multi` (the hypotheses about `haplotypes_seen` / entries are facts of the split loop).
  REMARKS / FINDINGS are collected at the end of the file.
-/
import AgpTpf.Properties.C10
import AgpTpf.Proofs.C10MultiDict
import AgpTpf.Proofs.C10MultiBuild
import AgpTpf.Proofs.C10MultiName
import AgpTpf.Proofs.C10MultiNumber
import AgpTpf.Proofs.C10MultiOut
namespace AgpTpf.C10
open AgpTpf

/-! ## running example: two haplotypes, four groups, one Singleton

  Pretext order:            Hap1          Hap2
     group a               Scaffold_1    Scaffold_2 (+ unloc)
     group b               Scaffold_3    Scaffold_4, Scaffold_5
     group c               Scaffold_6 (Singleton)
     group d               Scaffold_7    Scaffold_8
-/

def sHap1 : Str := "Hap1".toList
def sHap2 : Str := "Hap2".toList

def mSc (nm orig : Str) (hap : Str) (len : Int) (tags : List Str := [sPainted]) : Scaffold :=
  { name := nm, rank := 1, haplotype := some hap, originalName := some orig, originalTags := some tags,
    rows := [.frag { name := "ctg".toList, start := 1, stop := len, strand := 1 }] }

def mFs : List Scaffold :=
  [mSc "Scaffold_1".toList "Scaffold_1".toList sHap1 100,
   mSc "Scaffold_2".toList "Scaffold_2".toList sHap2 90,
   mSc "Scaffold_2_unloc_1".toList "Scaffold_2".toList sHap2 10,
   mSc "Scaffold_3".toList "Scaffold_3".toList sHap1 300,
   mSc "Scaffold_4".toList "Scaffold_4".toList sHap2 150,
   mSc "Scaffold_5".toList "Scaffold_5".toList sHap2 140,
   mSc "Scaffold_6".toList "Scaffold_6".toList sHap1 50 [sPainted, sSingleton],
   mSc "Scaffold_7".toList "Scaffold_7".toList sHap1 200,
   mSc "Scaffold_8".toList "Scaffold_8".toList sHap2 190]

def mEntries : List Entry :=
  [(sHap1, 0), (sHap2, 1), (sHap2, 2), (sHap1, 3), (sHap2, 4), (sHap2, 5), (sHap1, 6), (sHap1, 7), (sHap2, 8)]

def mHaps : List Str := [sHap1, sHap2]

/-! ## M1  `ChrNamer.build_groups` with several haplotypes -/

/-- **the cut rule in words.**  A new group starts before `e` (the current group holding the entries `seg`, `l` the
    previous entry) exactly when
      (i)  `e`'s haplotype differs from `l`'s and the current group already has an entry of `e`'s haplotype, or
      (ii) the haplotype is unchanged, the Pretext name changed, and the FIRST scaffold the current group holds under
           `l`'s haplotype and Pretext name carries the `Singleton` tag. -/
theorem starts_new_iff (fs : List Scaffold) (seg : List Entry) (e : Entry) :
    startsNew fs seg e = true ↔
      ∃ l, seg.getLast? = some l ∧
        ((e.1 ≠ l.1 ∧ ∃ x ∈ seg, x.1 = e.1) ∨
         (e.1 = l.1 ∧ origOf fs e.2 ≠ origOf fs l.2 ∧
            ∃ x, seg.find? (fun x => decide (x.1 = l.1) && decide (origOf fs x.2 = origOf fs l.2)) = some x ∧
              isSingletonSc fs x.2 = true)) :=
  startsNew_iff fs seg e

/-- **what `segments` means**: concatenating the segments gives back the entries; inside a segment the rule never
    fires (`NoCut`); between two neighbouring segments it fires (`Boundaries`: the second segment begins with the entry
    `e` for which `startsNew fs <first segment> e`); no segment is empty.  These facts determine the decomposition. -/
theorem segments_characterised (fs : List Scaffold) (entries : List Entry) :
    (segments fs entries).flatten = entries ∧
    (∀ s ∈ segments fs entries, ∀ pre e post, s = pre ++ e :: post → startsNew fs pre e = false) ∧
    Boundaries fs (segments fs entries) ∧
    (entries ≠ [] → ∀ s ∈ segments fs entries, s ≠ []) :=
  segments_spec fs entries

example (fs : List Scaffold) (s1 s2 : List Entry) (r : List (List Entry)) :
    Boundaries fs (s1 :: s2 :: r) ↔ (∃ e t, s2 = e :: t ∧ startsNew fs s1 e = true) ∧ Boundaries fs (s2 :: r) := Iff.rfl

/-- **the group of a segment**: for duplicate-free `haplotypes_seen` containing every key of the segment, the
    `ChrGroup.data` is `{h: {o: ids}}` with, per haplotype `h` in `haplotypes_seen` order, the distinct Pretext names in
    first-occurrence order, each with its scaffold ids in order.  (`dGet_segGroup`, `segGroup_head` give the same
    per-haplotype without the side conditions.) -/
theorem seg_group_eq (fs : List Scaffold) (haps : List Str) (hnd : haps.Nodup) (seg : List Entry)
    (hm : ∀ e ∈ seg, e.1 ∈ haps) :
    segGroup fs haps seg = haps.map (fun h => (h, (hapOrigs fs h seg).map (fun o => (o, idsOf fs h o seg)))) :=
  segGroup_eq fs haps hnd seg hm

theorem hap_origs_spec (fs : List Scaffold) (h : Str) (seg : List Entry) :
    (hapOrigs fs h seg).Nodup ∧ (∀ o, o ∈ hapOrigs fs h seg ↔ ∃ e ∈ seg, e.1 = h ∧ origOf fs e.2 = o) ∧
    (∀ o j, j ∈ idsOf fs h o seg ↔ ∃ e ∈ seg, e.1 = h ∧ origOf fs e.2 = o ∧ e.2 = j) :=
  ⟨hapOrigs_nodup fs h seg, fun o => mem_hapOrigs fs h o seg, fun o j => mem_idsOf fs h o seg j⟩

/-- **M1.**  With `haplotypes_seen = h1 :: others`, `others ≠ []`: if every scaffold has a non-empty `original_name`,
    `build_groups` returns — in order — the group of every segment; if some scaffold has an empty or absent
    `original_name`, it raises `ValueError`.  The two cases are exhaustive. -/
theorem build_groups_multi (fs : List Scaffold) (h1 : Str) (others : List Str) (hne : others ≠ [])
    (entries : List Entry) :
    ((∀ e ∈ entries, truthy (fs.getD e.2 default).originalName = true) →
        buildGroups fs (h1 :: others) entries = .ok (groupsSpec fs (h1 :: others) entries)) ∧
    ((∃ e ∈ entries, truthy (fs.getD e.2 default).originalName = false) →
        buildGroups fs (h1 :: others) entries = .error .value) := by
  have hoth : ((h1 :: others).drop 1).isEmpty = false := by
    cases others with
    | nil => exact absurd rfl hne
    | cons _ _ => rfl
  exact ⟨buildGroups_multi_ok fs _ hoth entries, buildGroups_multi_bad fs _ hoth entries⟩

theorem all_or_some_bad (fs : List Scaffold) (entries : List Entry) :
    (∀ e ∈ entries, truthy (fs.getD e.2 default).originalName = true) ∨
    (∃ e ∈ entries, truthy (fs.getD e.2 default).originalName = false) := by
  by_cases hb : ∃ e ∈ entries, truthy (fs.getD e.2 default).originalName = false
  · exact Or.inr hb
  · left
    intro e he
    cases ht : truthy (fs.getD e.2 default).originalName with
    | true => rfl
    | false => exact absurd ⟨e, he, ht⟩ hb

/-- `build_groups` fails exactly when some `original_name` is missing or empty … -/
theorem build_groups_multi_fails_iff (fs : List Scaffold) (h1 : Str) (others : List Str) (hne : others ≠ [])
    (entries : List Entry) :
    (∃ err, buildGroups fs (h1 :: others) entries = .error err) ↔
      ∃ e ∈ entries, truthy (fs.getD e.2 default).originalName = false := by
  obtain ⟨hok, hbad⟩ := build_groups_multi fs h1 others hne entries
  constructor
  · rintro ⟨err, herr⟩
    rcases all_or_some_bad fs entries with hg | hb
    · rw [hok hg] at herr; cases herr
    · exact hb
  · intro hb; exact ⟨_, hbad hb⟩

/-- … and then the error is `ValueError`: **the `KeyError` branch (`Err.key`, the lookup
    `haplotype_dict(haplotype)[last_orig]`) and the `IndexError` of `[0]` are unreachable**, because the previous
    entry — of the same haplotype, with Pretext name `last_orig` — is always in the current group. -/
theorem build_groups_multi_error (fs : List Scaffold) (h1 : Str) (others : List Str) (hne : others ≠ [])
    (entries : List Entry) (err : Err) (h : buildGroups fs (h1 :: others) entries = .error err) : err = .value := by
  obtain ⟨hok, hbad⟩ := build_groups_multi fs h1 others hne entries
  rcases all_or_some_bad fs entries with hg | hb
  · rw [hok hg] at h; cases h
  · rw [hbad hb] at h; cases h; rfl

/-- the example: four groups; rule (i) fires before ids 3 and 6, rule (ii) (Scaffold_6 is a Singleton) before id 7;
    Scaffold_5 joins Scaffold_4's group (Scaffold_4 is not a Singleton) -/
example : segments mFs mEntries =
    [[(sHap1, 0), (sHap2, 1), (sHap2, 2)], [(sHap1, 3), (sHap2, 4), (sHap2, 5)], [(sHap1, 6)], [(sHap1, 7), (sHap2, 8)]] := by
  decide +kernel
example : (match buildGroups mFs mHaps mEntries with | .ok g => g | .error _ => []) =
         [[(sHap1, [("Scaffold_1".toList, [0])]), (sHap2, [("Scaffold_2".toList, [1, 2])])],
          [(sHap1, [("Scaffold_3".toList, [3])]), (sHap2, [("Scaffold_4".toList, [4]), ("Scaffold_5".toList, [5])])],
          [(sHap1, [("Scaffold_6".toList, [6])]), (sHap2, [])],
          [(sHap1, [("Scaffold_7".toList, [7])]), (sHap2, [("Scaffold_8".toList, [8])])]] := by decide +kernel
example : (buildGroups mFs mHaps mEntries).toOption.isSome = true := by decide +kernel
example : groupsSpec mFs mHaps mEntries =
    [[(sHap1, [("Scaffold_1".toList, [0])]), (sHap2, [("Scaffold_2".toList, [1, 2])])],
     [(sHap1, [("Scaffold_3".toList, [3])]), (sHap2, [("Scaffold_4".toList, [4]), ("Scaffold_5".toList, [5])])],
     [(sHap1, [("Scaffold_6".toList, [6])]), (sHap2, [])],
     [(sHap1, [("Scaffold_7".toList, [7])]), (sHap2, [("Scaffold_8".toList, [8])])]] := by decide +kernel
example : mHaps = sHap1 :: [sHap2] ∧ [sHap2] ≠ [] ∧ mHaps.Nodup ∧ (∀ e ∈ mEntries, e.1 ∈ mHaps) ∧
    (mEntries.map (·.2)).Nodup ∧ (∀ e ∈ mEntries, truthy (mFs.getD e.2 default).originalName = true) := by
  decide +kernel
/-- rule (i) and rule (ii) at work -/
example : startsNew mFs [(sHap1, 0), (sHap2, 1), (sHap2, 2)] (sHap1, 3) = true ∧
    startsNew mFs [(sHap1, 6)] (sHap1, 7) = true ∧
    startsNew mFs [(sHap1, 3), (sHap2, 4)] (sHap2, 5) = false := by decide +kernel
/-- a scaffold without Pretext name: `ValueError` -/
example : (match buildGroups [{ name := "x".toList, rank := 1 }] mHaps [(sHap1, 0)] with
    | .error e => some e | .ok _ => none) = some Err.value := by decide

/-! ## M2  `check_groups` -/

/-- **M2.**  `check_groups` reports an error iff some group's FIRST haplotype set has no chromosome (`<empty>`) or
    at least two (`<Consecutive h1>`). -/
theorem group_errors_iff (groups : List GroupData) :
    groupsHaveErrors groups = true ↔
      ∃ g ∈ groups, ∃ h first rest, g = (h, first) :: rest ∧ (first = [] ∨ 2 ≤ first.length) := by
  rw [groupsHaveErrors_iff]
  constructor
  · rintro ⟨g, hg, h, first, rest, e, hne⟩
    refine ⟨g, hg, h, first, rest, e, ?_⟩
    cases first with
    | nil => exact Or.inl rfl
    | cons a r => right; simp at hne ⊢; cases r with
      | nil => exact absurd rfl hne
      | cons _ _ => simp
  · rintro ⟨g, hg, h, first, rest, e, hor⟩
    refine ⟨g, hg, h, first, rest, e, ?_⟩
    rcases hor with h0 | h2
    · rw [h0]; simp
    · omega

/-- **M2 on the groups `build_groups` returns**: an error iff in some segment the first haplotype `h1` has no scaffold
    or scaffolds of at least two different Pretext names. -/
theorem group_errors_multi (fs : List Scaffold) (h1 : Str) (others : List Str) (entries : List Entry) :
    groupsHaveErrors (groupsSpec fs (h1 :: others) entries) = true ↔
      ∃ seg ∈ segments fs entries, (∀ e ∈ seg, e.1 ≠ h1) ∨ 2 ≤ (hapOrigs fs h1 seg).length := by
  rw [group_errors_iff]
  constructor
  · rintro ⟨g, hg, h, first, rest, e, hor⟩
    obtain ⟨seg, hseg, rfl⟩ := List.mem_map.1 hg
    obtain ⟨rest', hh⟩ := segGroup_head fs h1 others seg
    rw [hh] at e
    simp only [List.cons.injEq, Prod.mk.injEq] at e
    obtain ⟨⟨_, e2⟩, _⟩ := e
    refine ⟨seg, hseg, ?_⟩
    rw [← e2, hapChrs_length] at hor
    rcases hor with h0 | h2
    · left
      apply (hapOrigs_eq_nil_iff fs h1 seg).1
      unfold hapChrs at h0
      simpa using h0
    · exact Or.inr h2
  · rintro ⟨seg, hseg, hor⟩
    obtain ⟨rest', hh⟩ := segGroup_head fs h1 others seg
    refine ⟨segGroup fs (h1 :: others) seg, List.mem_map.2 ⟨seg, hseg, rfl⟩, h1, hapChrs fs h1 seg, rest', hh, ?_⟩
    rcases hor with h0 | h2
    · left
      unfold hapChrs
      rw [(hapOrigs_eq_nil_iff fs h1 seg).2 h0]; rfl
    · right; rw [hapChrs_length]; exact h2

example : groupsHaveErrors (groupsSpec mFs mHaps mEntries) = false := by decide +kernel
/-- two consecutive Hap1 scaffolds without Singleton: `<Consecutive Hap1>` — `ChrNamerError` -/
example : groupsHaveErrors (groupsSpec mFs mHaps [(sHap1, 0), (sHap1, 3), (sHap2, 4)]) = true ∧
    (match nameChromosomes "SUPER_".toList mFs mHaps [(sHap1, 0), (sHap1, 3), (sHap2, 4)] with
      | .error e => some e | .ok _ => none) = some Err.chrNamer := by decide +kernel
/-- the second haplotype comes first in a later group, which then has no Hap1 scaffold: `<empty>` -/
example : groupsHaveErrors (groupsSpec mFs [sHap2, sHap1] [(sHap1, 0), (sHap2, 1), (sHap2, 2)]) = false ∧
    groupsHaveErrors (groupsSpec mFs [sHap2, sHap1] [(sHap1, 0), (sHap2, 1), (sHap1, 3)]) = true := by decide +kernel

/-! ## M3  numbering -/

/-- **`ChrGroup.name_chromosome(prefix, n)` on an arbitrary group** whose scaffold ids are pairwise different:
    exactly the scaffolds of the group are touched; in a scaffold of the `i`-th chromosome (Pretext name `o`) of a
    haplotype with `c` chromosomes in the group every occurrence of `o` in the name is replaced by
    `prefix ++ str(n)` (`c = 1`) resp. `prefix ++ str(n) ++ chr(ord "A" + i)` (`multi_chr_list`). -/
theorem name_group_multi (fs : List Scaffold) (g : GroupData) (prefix_ : Str) (n : Nat) (hnd : (groupIds g).Nodup) :
    (nameGroup fs g prefix_ n).length = fs.length ∧
    (∀ j, j ∉ groupIds g → (nameGroup fs g prefix_ n).getD j default = fs.getD j default) ∧
    (∀ hc ∈ g, ∀ i (hi : i < hc.2.length), ∀ j ∈ hc.2[i].2,
      (nameGroup fs g prefix_ n).getD j default =
        { fs.getD j default with
          name := replaceAll hc.2[i].1 (prefix_ ++ natToStr n ++ chrLetter hc.2.length i)
                    ((fs.getD j default).name.length + 1) (fs.getD j default).name }) :=
  nameGroup_spec fs g prefix_ n hnd

theorem multi_chr_list_eq (base : Str) (c : Nat) :
    multiChrList base c = (List.range c).map (fun i => base ++ chrLetter c i) ∧
    chrLetter 1 0 = [] ∧ (∀ i, c ≠ 1 → chrLetter c i = [Char.ofNat (65 + i)]) :=
  ⟨multiChrList_eq base c, rfl, fun i h => by unfold chrLetter; rw [if_neg h]⟩

example : multiChrList "SUPER_9".toList 1 = ["SUPER_9".toList] ∧
    multiChrList "SUPER_9".toList 3 = ["SUPER_9A".toList, "SUPER_9B".toList, "SUPER_9C".toList] := by decide

/-- `check_groups` found an error: `ChrNamerError` -/
theorem numbering_multi_error (prefix_ : Str) (fs : List Scaffold) (h1 : Str) (others : List Str) (hne : others ≠ [])
    (entries : List Entry) (hg : ∀ e ∈ entries, truthy (fs.getD e.2 default).originalName = true)
    (herr : groupsHaveErrors (groupsSpec fs (h1 :: others) entries) = true) :
    nameChromosomes prefix_ fs (h1 :: others) entries = .error .chrNamer :=
  (nameChromosomes_of_groups prefix_ fs _ entries _ ((build_groups_multi fs h1 others hne entries).1 hg)
    (by intro g hgm; obtain ⟨seg, _, rfl⟩ := List.mem_map.1 hgm; exact segGroup_ne_nil fs h1 others seg)).1 herr

/-- **M3.**  `haplotypes_seen = h1 :: others` (duplicate-free, containing every entry's key), `others ≠ []`, entry ids
    pairwise different, every scaffold with a Pretext name, `check_groups` without error.  Then `name_chromosomes`
    succeeds and
      * `sorted` = the groups in non-increasing order of `length_of_first_haplotype`, ties in build order (stable);
        the groups are pairwise different, so the position of a group in `sorted` is unique;
      * scaffolds not handed to `ChrNamer` are untouched;
      * every segment `seg` has ONE position `k` in `sorted` (its number is `k + 1`, so the numbers are `1..n`);
        `length_of_first_haplotype` of that group is the summed fragments length of the `h1`-scaffolds of `seg`
        (chromosome + unlocs), of which there is exactly one Pretext name;
      * every scaffold `e` of `seg`: in its name every occurrence of its Pretext name is replaced by
        `prefix ++ str(k+1) ++ chrLetter c i`, `c` the number of chromosomes (distinct Pretext names) of `e`'s
        haplotype in `seg` and `i` the position of `e`'s among them — i.e. `<prefix>k` if `c = 1`, else `<prefix>kA`,
        `<prefix>kB`, …;
      * hence a scaffold called `<Pretext name> ++ suf` (no further occurrence of the Pretext name in `suf`) is then
        called `<prefix>k<letter> ++ suf`. -/
theorem numbering_multi (prefix_ : Str) (fs : List Scaffold) (h1 : Str) (others : List Str) (hne : others ≠ [])
    (hnd : (h1 :: others).Nodup) (entries : List Entry) (hm : ∀ e ∈ entries, e.1 ∈ h1 :: others)
    (hid : (entries.map (·.2)).Nodup) (hg : ∀ e ∈ entries, truthy (fs.getD e.2 default).originalName = true)
    (hok : groupsHaveErrors (groupsSpec fs (h1 :: others) entries) = false) :
    let groups := groupsSpec fs (h1 :: others) entries
    let sorted := sortedGroups fs groups
    ∃ fs', nameChromosomes prefix_ fs (h1 :: others) entries = .ok fs' ∧
      sorted.Perm groups ∧ sorted.Nodup ∧
      sorted.Pairwise (fun a b => firstLen fs a ≥ firstLen fs b) ∧
      (∀ L : Int, sorted.filter (fun g => firstLen fs g = L) = groups.filter (fun g => firstLen fs g = L)) ∧
      fs'.length = fs.length ∧
      (∀ j, j ∉ entries.map (·.2) → fs'.getD j default = fs.getD j default) ∧
      (∀ seg ∈ segments fs entries, ∃ k, ∃ hk : k < sorted.length,
        sorted[k] = segGroup fs (h1 :: others) seg ∧
        (hapOrigs fs h1 seg).length = 1 ∧
        firstLen fs sorted[k] = firstHapLength fs h1 seg ∧
        ∀ e ∈ seg,
          fs'.getD e.2 default =
            { fs.getD e.2 default with
              name := replaceAll (origOf fs e.2)
                        (prefix_ ++ natToStr (k + 1) ++ chrLetter (chrCount fs seg e) (chrIndex fs seg e))
                        ((fs.getD e.2 default).name.length + 1) (fs.getD e.2 default).name } ∧
          chrIndex fs seg e < chrCount fs seg e ∧
          (hapOrigs fs e.1 seg)[chrIndex fs seg e]? = some (origOf fs e.2) ∧
          ∀ suf, (fs.getD e.2 default).name = origOf fs e.2 ++ suf → occursIn (origOf fs e.2) suf = false →
            fs'.getD e.2 default =
              { fs.getD e.2 default with
                name := prefix_ ++ natToStr (k + 1) ++ chrLetter (chrCount fs seg e) (chrIndex fs seg e) ++ suf }) := by
  intro groups sorted
  have hb := (build_groups_multi fs h1 others hne entries).1 hg
  have hgne : ∀ g ∈ groups, g ≠ [] := by
    intro g hgm; obtain ⟨seg, _, rfl⟩ := List.mem_map.1 hgm; exact segGroup_ne_nil fs h1 others seg
  have hnc := (nameChromosomes_of_groups prefix_ fs _ entries _ hb hgne).2 hok
  have hids := sortedGroups_ids_nodup fs (h1 :: others) entries hid
  obtain ⟨a, b, _⟩ := nameGroups_spec prefix_ sorted fs hids
  refine ⟨_, hnc, sortedGroups_perm fs groups, sortedGroups_nodup fs _ entries hid, sortedGroups_sorted fs groups,
    sortedGroups_stable fs groups, a, ?_, ?_⟩
  · intro j hj
    exact b j (fun hmem => hj ((sortedGroups_ids_mem fs (h1 :: others) entries j).1 hmem))
  · intro seg hseg
    obtain ⟨k, hk, hkg, hren⟩ := segment_numbered prefix_ fs (h1 :: others) hnd entries hm hid seg hseg
    have hone : (hapOrigs fs h1 seg).length = 1 := by
      have hgm : segGroup fs (h1 :: others) seg ∈ groups := List.mem_map.2 ⟨seg, hseg, rfl⟩
      obtain ⟨rest, hh⟩ := segGroup_head fs h1 others seg
      have := (groupsHaveErrors_false_iff groups).1 hok _ hgm h1 _ rest hh
      rw [hapChrs_length] at this; exact this
    refine ⟨k, hk, hkg, hone, by rw [hkg]; exact firstLen_segGroup fs h1 others seg hone, ?_⟩
    intro e he
    have hr := hren e he
    refine ⟨?_, chrIndex_lt fs seg e he, chrIndex_get fs seg e he, ?_⟩
    · rw [hr]; unfold renameScaffold chrLabel; rfl
    · intro suf hn ho
      have hge := hg e (segments_sub fs entries seg hseg e he)
      rw [hr, renameScaffold_piece fs e.2 _ hge suf hn ho]
      unfold chrLabel; rfl

/-- **M3, unlocs** (same side condition as `name_group_single_unloc`): a scaffold of `seg` called
    `<Pretext name>_unloc_<m>` becomes `<prefix><k><letter>_unloc_<m>`, `k`, `letter` those of its chromosome, provided
    the Pretext name has a character that is neither a digit nor one of `_ u n l o c` (true of every `Scaffold_<i>`). -/
theorem numbering_multi_unloc (prefix_ : Str) (fs : List Scaffold) (h1 : Str) (others : List Str) (hne : others ≠ [])
    (hnd : (h1 :: others).Nodup) (entries : List Entry) (hm : ∀ e ∈ entries, e.1 ∈ h1 :: others)
    (hid : (entries.map (·.2)).Nodup) (hg : ∀ e ∈ entries, truthy (fs.getD e.2 default).originalName = true)
    (hok : groupsHaveErrors (groupsSpec fs (h1 :: others) entries) = false)
    (seg : List Entry) (hseg : seg ∈ segments fs entries) :
    ∃ fs', nameChromosomes prefix_ fs (h1 :: others) entries = .ok fs' ∧ ∃ k,
      k < (segments fs entries).length ∧
      ∀ e ∈ seg, ∀ (c : Char), c ∈ origOf fs e.2 → isDigit c = false → c ∉ ['_', 'u', 'n', 'l', 'o', 'c'] →
        ((fs.getD e.2 default).name = origOf fs e.2 →
          (fs'.getD e.2 default).name =
            prefix_ ++ natToStr (k + 1) ++ chrLetter (chrCount fs seg e) (chrIndex fs seg e)) ∧
        (∀ m, (fs.getD e.2 default).name = origOf fs e.2 ++ "_unloc_".toList ++ natToStr m →
          (fs'.getD e.2 default).name =
            prefix_ ++ natToStr (k + 1) ++ chrLetter (chrCount fs seg e) (chrIndex fs seg e) ++ "_unloc_".toList ++
              natToStr m) := by
  obtain ⟨fs', h1', hperm, _, _, _, _, _, hsegs⟩ := numbering_multi prefix_ fs h1 others hne hnd entries hm hid hg hok
  obtain ⟨k, hk, _, _, _, hall⟩ := hsegs seg hseg
  refine ⟨fs', h1', k, ?_, ?_⟩
  · have hl1 := hperm.length_eq
    have hl2 : (groupsSpec fs (h1 :: others) entries).length = (segments fs entries).length := by
      unfold groupsSpec; rw [List.length_map]
    omega
  · intro e he c hc hd hu
    obtain ⟨_, _, _, hsuf⟩ := hall e he
    constructor
    · intro hn
      have := hsuf [] (by rw [hn]; simp) (by
        apply occursIn_false_of_mem (origOf fs e.2) [] c hc; simp)
      rw [this]; simp
    · intro m hn
      have := hsuf (unlocSuffix m) (by rw [hn, List.append_assoc]; rfl) (not_occurs_unloc _ m c hc hd hu)
      rw [this]; simp [unlocSuffix]

/-- the example: groups sorted by the Hap1 length 300, 200, 100, 50; Scaffold_4 / Scaffold_5 (two Hap2 chromosomes
    grouped with Scaffold_3) get the letters A, B; the unloc follows its chromosome -/
example : (nameChromosomes "SUPER_".toList mFs mHaps mEntries).toOption.map (fun fs => fs.map (·.name)) =
    some ["SUPER_3".toList, "SUPER_3".toList, "SUPER_3_unloc_1".toList, "SUPER_1".toList, "SUPER_1A".toList,
          "SUPER_1B".toList, "SUPER_4".toList, "SUPER_2".toList, "SUPER_2".toList] := by decide +kernel
example : (sortedGroups mFs (groupsSpec mFs mHaps mEntries)).map (firstLen mFs) = [300, 200, 100, 50] := by
  decide +kernel
example : chrCount mFs [(sHap1, 3), (sHap2, 4), (sHap2, 5)] (sHap2, 5) = 2 ∧
    chrIndex mFs [(sHap1, 3), (sHap2, 4), (sHap2, 5)] (sHap2, 5) = 1 ∧ chrLetter 2 1 = ['B'] := by decide +kernel
example : 'S' ∈ origOf mFs 2 ∧ isDigit 'S' = false ∧ 'S' ∉ ['_', 'u', 'n', 'l', 'o', 'c'] ∧
    (mFs.getD 2 default).name = origOf mFs 2 ++ "_unloc_".toList ++ natToStr 1 := by decide +kernel

/-! ## M4  homologues share the number -/

/-- **M4.**  Two scaffolds `a`, `b` of one group (segment) — in particular homologues of different haplotypes — whose
    names are `<Pretext name> ++ suffix` (`PieceShape`) are renamed `<prefix><n><ra>` and `<prefix><n><rb>` with THE
    SAME number `n ≥ 1`; the remainders `ra`, `rb` (optional letter, then the old suffix) do not start with a digit, so
    `n` is the number read back from either name (`generated_names_unique`). -/
theorem homologues_share_number (prefix_ : Str) (fs : List Scaffold) (h1 : Str) (others : List Str)
    (hne : others ≠ []) (hnd : (h1 :: others).Nodup) (entries : List Entry) (hm : ∀ e ∈ entries, e.1 ∈ h1 :: others)
    (hid : (entries.map (·.2)).Nodup) (hg : ∀ e ∈ entries, truthy (fs.getD e.2 default).originalName = true)
    (hok : groupsHaveErrors (groupsSpec fs (h1 :: others) entries) = false)
    (seg : List Entry) (hseg : seg ∈ segments fs entries) (a b : Entry) (ha : a ∈ seg) (hb : b ∈ seg)
    (hsa : PieceShape fs a.2) (hsb : PieceShape fs b.2) :
    ∃ fs', nameChromosomes prefix_ fs (h1 :: others) entries = .ok fs' ∧
      ∃ n ra rb, 1 ≤ n ∧ n ≤ (segments fs entries).length ∧
        (fs'.getD a.2 default).name = prefix_ ++ natToStr n ++ ra ∧
        (fs'.getD b.2 default).name = prefix_ ++ natToStr n ++ rb ∧
        C20.NoDigitHead ra ∧ C20.NoDigitHead rb := by
  obtain ⟨fs', h1', hperm, _, _, _, _, _, hsegs⟩ := numbering_multi prefix_ fs h1 others hne hnd entries hm hid hg hok
  obtain ⟨k, hk, _, _, _, hall⟩ := hsegs seg hseg
  obtain ⟨sa, hna, hda, hoa⟩ := hsa
  obtain ⟨sb, hnb, hdb, hob⟩ := hsb
  have hka : k + 1 ≤ (segments fs entries).length := by
    have hl1 := hperm.length_eq
    have hl2 : (groupsSpec fs (h1 :: others) entries).length = (segments fs entries).length := by
      unfold groupsSpec; rw [List.length_map]
    omega
  refine ⟨fs', h1', k + 1, chrLetter (chrCount fs seg a) (chrIndex fs seg a) ++ sa,
    chrLetter (chrCount fs seg b) (chrIndex fs seg b) ++ sb, by omega, hka, ?_, ?_,
    noDigitHd_letter _ _ _ hda, noDigitHd_letter _ _ _ hdb⟩
  · rw [(hall a ha).2.2.2 sa hna hoa]; simp
  · rw [(hall b hb).2.2.2 sb hnb hob]; simp

/-- in the example Scaffold_7 (Hap1) and Scaffold_8 (Hap2) are in one segment … and both become SUPER_2 -/
example : [(sHap1, 7), (sHap2, 8)] ∈ segments mFs mEntries := by decide +kernel
example : PieceShape mFs 7 ∧ PieceShape mFs 8 ∧ PieceShape mFs 2 :=
  ⟨⟨[], by decide +kernel, noDigitHd_nil, by decide +kernel⟩, ⟨[], by decide +kernel, noDigitHd_nil, by decide +kernel⟩,
   ⟨unlocSuffix 1, by decide +kernel, noDigitHd_unloc 1, by decide +kernel⟩⟩

/-! ## M5  unique names inside one haplotype's assembly -/

example : letterBound = 55231 := rfl

/-- **M5.**  As M3; moreover every `ChrNamer` scaffold is called `<its Pretext name> ++ suf` with `suf` empty or not
    starting with a digit and not containing the Pretext name again (`PieceShape`), two different scaffolds of the
    same Pretext scaffold have different names, and no group holds more than `letterBound = 55231` chromosomes of
    haplotype `h` (beyond that `ord "A" + i` reaches the surrogate range, where the model's `Char.ofNat` collapses to
    `'\0'`).  Then the new names of the scaffolds of haplotype `h` — one output assembly — are pairwise different. -/
theorem names_unique_multi (prefix_ : Str) (fs : List Scaffold) (h1 : Str) (others : List Str) (hne : others ≠ [])
    (hnd : (h1 :: others).Nodup) (entries : List Entry) (hm : ∀ e ∈ entries, e.1 ∈ h1 :: others)
    (hid : (entries.map (·.2)).Nodup) (hg : ∀ e ∈ entries, truthy (fs.getD e.2 default).originalName = true)
    (hok : groupsHaveErrors (groupsSpec fs (h1 :: others) entries) = false)
    (hshape : ∀ e ∈ entries, PieceShape fs e.2)
    (hdist : ∀ e ∈ entries, ∀ e' ∈ entries, e.2 ≠ e'.2 → origOf fs e.2 = origOf fs e'.2 →
      (fs.getD e.2 default).name ≠ (fs.getD e'.2 default).name)
    (h : Str) (hbound : ∀ seg ∈ segments fs entries, (hapOrigs fs h seg).length ≤ letterBound) :
    ∃ fs', nameChromosomes prefix_ fs (h1 :: others) entries = .ok fs' ∧
      ((entries.filter (fun e => e.1 = h)).map (fun e => (fs'.getD e.2 default).name)).Nodup := by
  have hb := (build_groups_multi fs h1 others hne entries).1 hg
  have hgne : ∀ g ∈ groupsSpec fs (h1 :: others) entries, g ≠ [] := by
    intro g hgm; obtain ⟨seg, _, rfl⟩ := List.mem_map.1 hgm; exact segGroup_ne_nil fs h1 others seg
  exact ⟨_, (nameChromosomes_of_groups prefix_ fs _ entries _ hb hgne).2 hok,
    new_names_nodup_multi prefix_ fs (h1 :: others) hnd entries hm hid hg hshape hdist h hbound⟩

/-- the hypotheses of M5 on the example -/
example : ∀ e ∈ mEntries, PieceShape mFs e.2 := by
  intro e he
  simp only [mEntries, List.mem_cons, List.not_mem_nil, or_false] at he
  rcases he with rfl | rfl | rfl | rfl | rfl | rfl | rfl | rfl | rfl
  · exact ⟨[], by decide +kernel, noDigitHd_nil, by decide +kernel⟩
  · exact ⟨[], by decide +kernel, noDigitHd_nil, by decide +kernel⟩
  · exact ⟨unlocSuffix 1, by decide +kernel, noDigitHd_unloc 1, by decide +kernel⟩
  · exact ⟨[], by decide +kernel, noDigitHd_nil, by decide +kernel⟩
  · exact ⟨[], by decide +kernel, noDigitHd_nil, by decide +kernel⟩
  · exact ⟨[], by decide +kernel, noDigitHd_nil, by decide +kernel⟩
  · exact ⟨[], by decide +kernel, noDigitHd_nil, by decide +kernel⟩
  · exact ⟨[], by decide +kernel, noDigitHd_nil, by decide +kernel⟩
  · exact ⟨[], by decide +kernel, noDigitHd_nil, by decide +kernel⟩
example : ∀ e ∈ mEntries, ∀ e' ∈ mEntries, e.2 ≠ e'.2 → origOf mFs e.2 = origOf mFs e'.2 →
    (mFs.getD e.2 default).name ≠ (mFs.getD e'.2 default).name := by decide +kernel
example : ∀ seg ∈ segments mFs mEntries, (hapOrigs mFs sHap2 seg).length ≤ letterBound := by decide +kernel
/-- … and its conclusion: the Hap2 assembly gets SUPER_3, SUPER_3_unloc_1, SUPER_1A, SUPER_1B, SUPER_2 -/
example : (nameChromosomes "SUPER_".toList mFs mHaps mEntries).toOption.map
      (fun fs' => (mEntries.filter (fun e => e.1 = sHap2)).map (fun e => (fs'.getD e.2 default).name)) =
    some ["SUPER_3".toList, "SUPER_3_unloc_1".toList, "SUPER_1A".toList, "SUPER_1B".toList, "SUPER_2".toList] := by
  decide +kernel

/-! ## inside `assemblies_with_scaffolds_fused` -/

/-- If the split loop saw the haplotype keys `h1 :: others` among the painted (rank 1) scaffolds, then the side
    conditions of M3–M5 about `haplotypes_seen` and the entries hold (facts of the split loop), and `assembliesFused`
    is `name_chromosomes` followed by the sort / count tail. -/
theorem assemblies_fused_multi (input : List Scaffold) (b : Build) (asms : C09.Asms) (entries : List Entry)
    (h1 : Str) (others : List Str) (fs : List Scaffold)
    (hsplit : C09.splitLoop b.namer.autosomePrefix (fuseByName b) = (asms, entries, h1 :: others, fs)) :
    (h1 :: others).Nodup ∧ (∀ e ∈ entries, e.1 ∈ h1 :: others) ∧ (entries.map (·.2)).Nodup ∧
    assembliesFused input b =
      nameChromosomes b.namer.autosomePrefix fs (h1 :: others) entries >>= C09.outsTail input b asms := by
  have hinv := splitLoop_entries b.namer.autosomePrefix (fuseByName b)
  have hnd := splitLoop_haps_nodup b.namer.autosomePrefix (fuseByName b)
  rw [hsplit] at hinv hnd
  obtain ⟨i1, i2, _⟩ := hinv
  refine ⟨hnd, i2, i1, ?_⟩
  rw [C09.assembliesFused_eq, hsplit, finishAssemblies_eq_name]
  simp only [List.isEmpty_cons, Bool.false_eq_true, if_false]

/-- end to end on a two-haplotype build: Pretext scaffolds Scaffold_1 (Hap1, 100 bp) / Scaffold_2 (Hap2, 400 bp) and
    Scaffold_3 (Hap1, 300 bp) / Scaffold_4 (Hap2, 150 bp): the pair containing the longer HAP1 chromosome becomes
    SUPER_1 in BOTH assemblies although the Hap2 scaffold of the other pair is the longest of all — the first
    haplotype decides -/
def mPiece (nm orig ctg hap : Str) (len : Int) : Res :=
  { o := { bait := exFrag orig len, start := 1, stop := len, rows := [.frag (exFrag ctg len)], name := nm, rank := 1,
           haplotype := some hap, originalName := some orig, originalTags := some [sPainted] }, added := true }
def mBuild : Build :=
  { namer := { autosomePrefix := "SUPER_".toList },
    store := [mPiece "Scaffold_1".toList "Scaffold_1".toList "ctgA".toList sHap1 100,
              mPiece "Scaffold_2".toList "Scaffold_2".toList "ctgB".toList sHap2 400,
              mPiece "Scaffold_3".toList "Scaffold_3".toList "ctgC".toList sHap1 300,
              mPiece "Scaffold_4".toList "Scaffold_4".toList "ctgD".toList sHap2 150],
    nextOid := 0, joinGap := none, err := 1 }

example : (assembliesFused [] mBuild).toOption.map
      (fun r => r.1.map (fun a => (a.key, a.scaffolds.map (fun s => (s.name, s.fragmentsLength))))) =
    some [(some sHap1, [("SUPER_1".toList, 300), ("SUPER_2".toList, 100)]),
          (some sHap2, [("SUPER_1".toList, 150), ("SUPER_2".toList, 400)])] := by
  decide +kernel
example :
    let st := C09.splitLoop mBuild.namer.autosomePrefix (fuseByName mBuild)
    st = (st.1, st.2.1, sHap1 :: [sHap2], st.2.2.2) := by decide +kernel

/-! ## remarks and findings

  1. (M1) `Err.key` / `Err.index` in `buildGroups` are dead code for EVERY input (`build_groups_multi_error`); no
     assumption on `haps` is needed for M1 (keys outside `haplotypes_seen` would simply be appended to the group).
  2. The `Singleton` tag is consulted only by rule (ii), i.e. when the NEXT scaffold is of the same haplotype.  A
     first-haplotype Singleton followed by a scaffold of another haplotype is grouped with it and shares its number
     (`singleton_followed_by_other_haplotype` below) — the tag has no effect there.
  3. (M5) the bound `letterBound` is an artefact of the model (`Char.ofNat` maps surrogates to `'\0'`, Python's `chr`
     does not; Python raises `ValueError` only from `0x110000`).  Below it M5 holds without exception.
  4. Uniqueness holds per haplotype only — by design homologues of different haplotypes carry the same name
     (`homologues_share_number`; in the example both assemblies contain `SUPER_2`).
  5. `multi_chr_list` does not stop at `Z`: the 27th chromosome of a haplotype set is called `<prefix>k[`
     (`letters_beyond_Z`); the names stay unique (M5) but are no longer letters.
-/

/-- remark 5 -/
theorem letters_beyond_Z : (multiChrList "SUPER_1".toList 27).getLast? = some "SUPER_1[".toList := by decide +kernel

/-- remark 2: Scaffold_6 is a Hap1 `Singleton`, but the following Hap2 scaffold joins its group and both are `SUPER_1` -/
theorem singleton_followed_by_other_haplotype :
    segments mFs [(sHap1, 6), (sHap2, 8)] = [[(sHap1, 6), (sHap2, 8)]] ∧
    (nameChromosomes "SUPER_".toList mFs mHaps [(sHap1, 6), (sHap2, 8)]).toOption.map
        (fun fs => ((fs.getD 6 default).name, (fs.getD 8 default).name)) =
      some ("SUPER_1".toList, "SUPER_1".toList) := by decide +kernel

end AgpTpf.C10
