/-
  C10 (part) — the chromosome report `<output>.chr_report.csv` (`AssemblyStats.chromosomes_report_csv`).

  Model: Model/CliPlan.lean (`chromosomesReport`, `chromosomesReportAsm`, `reportLabel`, `ReportRow` = the CSV columns
  assembly, seq_name, chromosome, localised, pretext_scaffold, length, length_minus_gaps; CSV quoting not modelled).
  Helpers: Proofs/CliPlanReport.lean (the report loop and the `chromosome_name_csv` loop run in lock step),
  Proofs/C10Csv.lean + Properties/C10.lean (`csvLine`, `chromosome_name_csv`).

   R1  `chromosomes_report_eq`        the rows, completely: per assembly one row per rank-1/2 scaffold, in order
       `chromosomes_report_rows`      row by row: columns, and when `localised` is `false`
       `report_agrees_with_chr_list`  the `(name, chr_name, localised)` triples are those of `chromosome_name_csv`
       `report_empty_iff`             when the report (and each chromosome list) is not written at all
  Both functions start every assembly with a fresh `orig_chr_name` dict, so an unloc is "not localised" only relative
  to its own assembly; the report differs from the lists only by covering ALL assemblies (also non-curated ones) and
  by the four extra columns.
-/
import AgpTpf.Proofs.CliPlanReport
import AgpTpf.Properties.C10
namespace AgpTpf.C10
open AgpTpf

/-- **R1 (whole report)** assemblies in dict order; inside an assembly the rank-1/2 scaffolds in order, each paired
    with its line of `chromosome_name_csv`; the label is the dict key, `Primary` for a falsy key. -/
theorem chromosomes_report_eq (prefix_ : Str) (asms : List NamedAsm) :
    chromosomesReport prefix_ asms =
      asms.flatMap (fun a =>
        ((a.scaffolds.filter isChrRank).zip (chromosomeNameCsv prefix_ a.scaffolds)).map (fun p =>
          ({ assembly := if truthy a.key then a.key.getD [] else sPrimary
             seqName := p.2.1, chromosome := p.2.2.1, localised := p.2.2.2
             pretextScaffold := p.1.originalName, length := p.1.length, lengthMinusGaps := p.1.fragmentsLength } : ReportRow))) := by
  unfold chromosomesReport
  congr 1
  funext a
  rw [chromosomesReportAsm_spec]
  rfl

/-- **R1 (row by row)** for one assembly with label `hap`: as many rows as rank-1/2 scaffolds `rs`; the row of `s`
    (preceded by `pre` in `rs`) has `seq_name = s.name`, `pretext_scaffold = s.original_name`, `length = s.length`,
    `length_minus_gaps = s.fragments_length`, and `(chromosome, localised)` as in the chromosome list:
    `localised = false` exactly when `s` has a truthy Pretext name that an EARLIER rank-1/2 scaffold OF THIS ASSEMBLY
    has too — then `chromosome` is that of the first such scaffold — otherwise `chromosome` is `s.name` with the first
    occurrence of the prefix removed. -/
theorem chromosomes_report_rows (prefix_ hap : Str) (scs : List Scaffold) :
    let rs := scs.filter isChrRank
    let rows := chromosomesReportAsm prefix_ hap scs
    rows.length = rs.length ∧
    ∀ pre s post, rs = pre ++ s :: post →
      rows[pre.length]? = some
        { assembly := hap, seqName := s.name, chromosome := (csvLine prefix_ pre s).2.1,
          localised := (csvLine prefix_ pre s).2.2, pretextScaffold := s.originalName, length := s.length,
          lengthMinusGaps := s.fragmentsLength } ∧
      ((csvLine prefix_ pre s).2.2 = false ↔
        (truthy s.originalName = true ∧ ∃ e ∈ pre, e.originalName = s.originalName)) ∧
      ((csvLine prefix_ pre s).2.2 = true → (csvLine prefix_ pre s).2.1 = replaceFirst prefix_ [] s.name) ∧
      ((csvLine prefix_ pre s).2.2 = false →
        ∃ e, pre.find? (fun e => e.originalName = s.originalName) = some e ∧
          (csvLine prefix_ pre s).2.1 = replaceFirst prefix_ [] e.name) := by
  intro rs rows
  obtain ⟨hlen, hnames, hrow⟩ := chromosome_name_csv prefix_ scs
  have hrows : rows = (rs.zip (chromosomeNameCsv prefix_ scs)).map (fun p => mkRow hap p.1 p.2) :=
    chromosomesReportAsm_spec prefix_ hap scs
  refine ⟨by rw [hrows, List.length_map, List.length_zip, hlen]; exact Nat.min_self _, ?_⟩
  intro pre s post hrs
  obtain ⟨h1, h2, h3, h4⟩ := hrow pre s post hrs
  refine ⟨?_, h2, h3, h4⟩
  rw [hrows, List.getElem?_map]
  have hz : (rs.zip (chromosomeNameCsv prefix_ scs))[pre.length]? = some (s, csvLine prefix_ pre s) := by
    rw [List.getElem?_zip_eq_some]
    refine ⟨?_, h1⟩
    show rs[pre.length]? = some s
    rw [hrs, List.getElem?_append_right (Nat.le_refl _), Nat.sub_self]; rfl
  rw [hz]
  have hn : (csvLine prefix_ pre s).1 = s.name := by unfold csvLine; split <;> rfl
  simp only [Option.map_some, mkRow, hn]

/-- **`report_agrees_with_chr_list`**: per assembly the report carries exactly the `(name, chr_name, localised)`
    triples of `chromosome_name_csv`, in the same order; so does the whole report, assembly after assembly. -/
theorem report_agrees_with_chr_list (prefix_ : Str) (asms : List NamedAsm) :
    (∀ hap scs, (chromosomesReportAsm prefix_ hap scs).map (fun r => (r.seqName, r.chromosome, r.localised)) =
      chromosomeNameCsv prefix_ scs) ∧
    (chromosomesReport prefix_ asms).map (fun r => (r.seqName, r.chromosome, r.localised)) =
      asms.flatMap (fun a => chromosomeNameCsv prefix_ a.scaffolds) := by
  have one : ∀ hap scs, (chromosomesReportAsm prefix_ hap scs).map (fun r => (r.seqName, r.chromosome, r.localised)) =
      chromosomeNameCsv prefix_ scs := by
    intro hap scs
    rw [chromosomesReportAsm_spec, List.map_map]
    have : ((fun r : ReportRow => (r.seqName, r.chromosome, r.localised)) ∘ fun p : Scaffold × Str × Str × Bool => mkRow hap p.1 p.2) =
        Prod.snd := by funext p; rfl
    rw [this]
    exact List.map_snd_zip (by rw [(chromosome_name_csv prefix_ scs).1]; exact Nat.le_refl _)
  refine ⟨one, ?_⟩
  unfold chromosomesReport
  rw [List.map_flatMap]
  congr 1
  funext a
  exact one _ _

/-- every row of an assembly carries that assembly's label -/
theorem report_label (prefix_ hap : Str) (scs : List Scaffold) :
    ∀ r ∈ chromosomesReportAsm prefix_ hap scs, r.assembly = hap := by
  intro r hr
  rw [chromosomesReportAsm_spec] at hr
  obtain ⟨p, _, rfl⟩ := List.mem_map.1 hr
  rfl

/-- the report has no data row (`chromosomes_report_csv` returns `None`, no `.chr_report.csv` is written) iff no
    assembly has a rank-1/2 scaffold; an assembly's chromosome list is empty iff that assembly has none. -/
theorem report_empty_iff (prefix_ : Str) (asms : List NamedAsm) :
    ((chromosomesReport prefix_ asms).isEmpty = true ↔ ∀ a ∈ asms, ∀ s ∈ a.scaffolds, isChrRank s = false) ∧
    (∀ scs, (chromosomeNameCsv prefix_ scs).isEmpty = true ↔ ∀ s ∈ scs, isChrRank s = false) := by
  have one : ∀ scs, (chromosomeNameCsv prefix_ scs).isEmpty = true ↔ ∀ s ∈ scs, isChrRank s = false := by
    intro scs
    rw [List.isEmpty_iff, ← List.length_eq_zero_iff, (chromosome_name_csv prefix_ scs).1, List.length_eq_zero_iff,
      List.filter_eq_nil_iff]
    simp
  refine ⟨?_, one⟩
  have hlen : ∀ hap scs, (chromosomesReportAsm prefix_ hap scs).length = (chromosomeNameCsv prefix_ scs).length := by
    intro hap scs
    rw [← (report_agrees_with_chr_list prefix_ []).1 hap scs, List.length_map]
  rw [List.isEmpty_iff]
  unfold chromosomesReport
  rw [List.flatMap_eq_nil_iff]
  constructor
  · intro h a ha
    have := h a ha
    rw [← one, List.isEmpty_iff, ← List.length_eq_zero_iff, ← hlen (reportLabel a.key), this]; rfl
  · intro h a ha
    have := (one a.scaffolds).2 (h a ha)
    rw [List.isEmpty_iff] at this
    rw [← List.length_eq_zero_iff, hlen, this]; rfl

/-! ### non-vacuity -/

private def tsc (n : String) (rank : Int) (orig : Option String) (L : Int) : Scaffold :=
  { name := n.toList, rank := rank, originalName := orig.map (·.toList),
    rows := [Row.frag { name := ['c'], start := 1, stop := L, strand := 1 }, Row.gap { length := 10, gapType := "scaffold".toList }] }

/-- chromosome, an unplaced scaffold in between, its unloc, a second chromosome without Pretext name -/
private def demoScs : List Scaffold :=
  [tsc "SUPER_1" 1 (some "Sc1") 30, tsc "scaffold_7" 3 (some "Sc1") 4, tsc "SUPER_1_unloc_1" 1 (some "Sc1") 8,
   tsc "SUPER_X" 2 none 20]

example : demoScs.filter isChrRank = [] ++ tsc "SUPER_1" 1 (some "Sc1") 30 ::
    [tsc "SUPER_1_unloc_1" 1 (some "Sc1") 8, tsc "SUPER_X" 2 none 20] := by decide
example : demoScs.filter isChrRank = [tsc "SUPER_1" 1 (some "Sc1") 30] ++ tsc "SUPER_1_unloc_1" 1 (some "Sc1") 8 ::
    [tsc "SUPER_X" 2 none 20] := by decide
example : chromosomesReportAsm "SUPER_".toList sPrimary demoScs =
    [{ assembly := sPrimary, seqName := "SUPER_1".toList, chromosome := ['1'], localised := true,
       pretextScaffold := some "Sc1".toList, length := 40, lengthMinusGaps := 30 },
     { assembly := sPrimary, seqName := "SUPER_1_unloc_1".toList, chromosome := ['1'], localised := false,
       pretextScaffold := some "Sc1".toList, length := 18, lengthMinusGaps := 8 },
     { assembly := sPrimary, seqName := "SUPER_X".toList, chromosome := ['X'], localised := true,
       pretextScaffold := none, length := 30, lengthMinusGaps := 20 }] := by decide
/-- fresh dict per assembly: the same Pretext name in a second assembly is "localised" there -/
example : (chromosomesReport "SUPER_".toList
      [{ key := none, name := ['p'], curated := true, scaffolds := [tsc "SUPER_1" 1 (some "Sc1") 30] },
       { key := some "Hap2".toList, name := ['q'], curated := true, scaffolds := [tsc "SUPER_2" 1 (some "Sc1") 8] }]).map
      (fun r => (r.assembly, r.seqName, r.localised)) =
    [(sPrimary, "SUPER_1".toList, true), ("Hap2".toList, "SUPER_2".toList, true)] := by decide

end AgpTpf.C10
