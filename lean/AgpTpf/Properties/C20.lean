/- C20 — statements under construction -/
import AgpTpf.Model.NaturalKey
namespace AgpTpf.C20
open AgpTpf
theorem strLe_refl (s : Str) : strLe s s = true := by
  induction s with
  | nil => rfl
  | cons c cs ih => simp [strLe, ih]
end AgpTpf.C20
