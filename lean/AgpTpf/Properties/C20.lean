/-
  C20 — Scaffold ordering is total, numeric-aware and never fails.

  Python: `Assembly.name_natural_key`, `scaffolds_sorted_by_name`, `smart_sort_scaffolds` (assembly.py).
  Model:  `AgpTpf/Model/NaturalKey.lean`.  Helper lemmas: `AgpTpf/Proofs/C20*.lean`.

  Python's tuple comparison of two keys can only raise `TypeError` if an `int` meets a `str` at the same
  position.  `re.split` with one capture group always yields `text, match, text, match, …, text`, so odd
  positions are ints and even positions are strs; in the model this is by construction (`NatKey` is
  `first : Str` + `List (Int × Str)`), hence the comparison `keyLe` is a total `Bool` function and the only
  place where the key computation can raise is `int(x)` = `pyInt` inside `tokenValue` (theorem 1).

  Domain caveats of the MODEL (not of the proofs): (a) `isDigit` is ASCII `0-9`; Python's `\d` on `str` also
  matches other Unicode decimal digits (which `int()` accepts too) — outside the modelled alphabet.
  (b) `pyInt` has no `sys.int_max_str_digits` limit: on CPython ≥ 3.11 `int()` raises `ValueError` for a digit
  run longer than 4300 characters, so for the real code "never fails" holds only for names whose digit runs
  are at most 4300 long (checked: `name_natural_key` on "SUPER_" + "1"*4301 raises ValueError under 3.12).
-/
import AgpTpf.Proofs.C20Names
import AgpTpf.Proofs.C20Sort
namespace AgpTpf.C20
open AgpTpf

/-! ## 1  the key function never fails -/

/-- every match token of the split is one of the table numerals or a non-empty run of ASCII digits -/
theorem natTokens_matches_good (name : Str) :
    ∀ p ∈ (natTokens name).rest,
      (p.1 = ['I'] ∨ p.1 = ['I', 'I'] ∨ p.1 = ['I', 'I', 'I'] ∨ p.1 = ['I', 'V'])
      ∨ (p.1 ≠ [] ∧ ∀ c ∈ p.1, isDigit c = true) :=
  goodToks_natTokens name

/-- every numeral the tokenizer can produce is in the generated table with a non-zero value
    (re-checked against `Gen.nematodeChrInt` on every build) -/
theorem numerals_in_table :
    dGet? Gen.nematodeChrInt ['I'] = some 1 ∧ dGet? Gen.nematodeChrInt ['I', 'I'] = some 2 ∧
    dGet? Gen.nematodeChrInt ['I', 'I', 'I'] = some 3 ∧ dGet? Gen.nematodeChrInt ['I', 'V'] = some 4 := by decide

/-- `int()` succeeds on a non-empty ASCII digit run and returns its decimal value -/
theorem pyInt_digit_run (m : Str) (hne : m ≠ []) (hd : ∀ c ∈ m, isDigit c = true) :
    pyInt m = .ok (digitsVal 0 m : Nat) := pyInt_digits hne hd

example : pyInt ['0', '0', '7'] = .ok 7 := by decide

/-- **C20.1** `name_natural_key` never raises, for every name (no length or alphabet restriction). -/
theorem natural_key_total : ∀ name : Str, ∃ k, naturalKey name = .ok k :=
  fun name => ⟨keyOf name, naturalKey_eq name⟩

/-- the same with the key named: `keyOf` (a pure function defined in `Proofs/C20.lean`) is what is returned;
    the remaining statements are phrased with `keyOf`. -/
theorem natural_key_eq (name : Str) : naturalKey name = .ok (keyOf name) := naturalKey_eq name

example : naturalKey "SUPER_10".toList = .ok { first := "SUPER_".toList, rest := [(10, [])] } := by decide
example : naturalKey "IIII".toList = .ok { first := [], rest := [(3, []), (1, [])] } := by decide
example : naturalKey "chrIV_2".toList = .ok { first := "chr".toList, rest := [(4, ['_']), (2, [])] } := by decide

/-! ## 2  the comparisons are total preorders (in fact total orders on keys) -/

theorem keyLe_refl (a : NatKey) : keyLe a a = true := keyLe_refl' a
theorem keyLe_total (a b : NatKey) : keyLe a b = true ∨ keyLe b a = true := keyLe_total' a b
theorem keyLe_trans (a b c : NatKey) : keyLe a b = true → keyLe b c = true → keyLe a c = true :=
  fun h1 h2 => keyLe_trans' h1 h2
/-- on keys the order is even antisymmetric; different *names* can have the same key (see below). -/
theorem keyLe_antisymm (a b : NatKey) : keyLe a b = true → keyLe b a = true → a = b :=
  fun h1 h2 => keyLe_antisymm' h1 h2

theorem smartLe_refl (a : Int × NatKey) : smartLe a a = true := smartLe_refl' a
theorem smartLe_total (a b : Int × NatKey) : smartLe a b = true ∨ smartLe b a = true := smartLe_total' a b
theorem smartLe_trans (a b c : Int × NatKey) : smartLe a b = true → smartLe b c = true → smartLe a c = true :=
  fun h1 h2 => smartLe_trans' h1 h2
theorem smartLe_antisymm (a b : Int × NatKey) : smartLe a b = true → smartLe b a = true → a = b :=
  fun h1 h2 => smartLe_antisymm' h1 h2

/-- names whose digit runs differ only in leading zeros, or that spell a number as numeral / in digits,
    have the same key: the order on *names* is a preorder, not an order. -/
example : keyOf "SUPER_02".toList = keyOf "SUPER_2".toList := by decide
example : keyOf "chrIV".toList = keyOf "chr4".toList := by decide


/-! ## 7  the sorts never fail, return a sorted permutation, and rank takes precedence over the name -/

/-- `smart_sort_scaffolds` never raises; `smartSorted` is the stable sort by the pure key `smartKey s =
    (s.rank, keyOf s.name)` (both defined in `Proofs/C20Sort.lean`). -/
theorem smartSort_total (scs : List Scaffold) : smartSort scs = .ok (smartSorted scs) := smartSort_eq' scs

theorem sortedByName_total (scs : List Scaffold) : sortedByName scs = .ok (nameSorted scs) := sortedByName_eq' scs

theorem smartSort_perm (scs out : List Scaffold) (h : smartSort scs = .ok out) : out.Perm scs := by
  rw [smartSort_eq'] at h; cases h
  exact stableSort_perm _ scs

/-- the output is sorted by `(rank, natural_key)` -/
theorem smartSort_sorted (scs out : List Scaffold) (h : smartSort scs = .ok out) :
    out.Pairwise (fun a b => smartLe (a.rank, keyOf a.name) (b.rank, keyOf b.name) = true) := by
  rw [smartSort_eq'] at h; cases h
  exact stableSort_sorted (totalPreorder_comap smartLe_totalPreorder smartKey) scs

/-- **C20.7** rank takes precedence over the name: in the output of `smart_sort_scaffolds` ranks are
    non-decreasing (whatever the names are). -/
theorem rank_first (scs out : List Scaffold) (h : smartSort scs = .ok out) :
    out.Pairwise (fun a b => a.rank ≤ b.rank) :=
  (smartSort_sorted scs out h).imp (fun h => smartLe_rank h)

/-- within one rank the natural key decides -/
theorem smartSort_sorted_within_rank (scs out : List Scaffold) (h : smartSort scs = .ok out) :
    out.Pairwise (fun a b => a.rank = b.rank → keyLe (keyOf a.name) (keyOf b.name) = true) := by
  refine (smartSort_sorted scs out h).imp ?_
  intro a b hab e
  simpa [smartLe, e] using hab

theorem sortedByName_perm (scs out : List Scaffold) (h : sortedByName scs = .ok out) : out.Perm scs := by
  rw [sortedByName_eq'] at h; cases h
  exact stableSort_perm _ scs

theorem sortedByName_sorted (scs out : List Scaffold) (h : sortedByName scs = .ok out) :
    out.Pairwise (fun a b => keyLe (keyOf a.name) (keyOf b.name) = true) := by
  rw [sortedByName_eq'] at h; cases h
  exact stableSort_sorted (totalPreorder_comap keyLe_totalPreorder (fun s => keyOf s.name)) scs

/-- non-vacuity: rank 1 with a "small" name comes after rank 0 with a "large" name -/
example : smartSort [{ name := "A".toList, rank := 1 }, { name := "Z".toList, rank := 0 }]
    = .ok [{ name := "Z".toList, rank := 0 }, { name := "A".toList, rank := 1 }] := by decide

/-! ## 3  consistency of the sort -/

/-- `stableSort` returns a sorted permutation of its input for every total preorder -/
theorem stableSort_sorted_perm {α} (le : α → α → Bool) (h : TotalPreorder le) (l : List α) :
    (stableSort le l).Perm l ∧ (stableSort le l).Pairwise (fun a b => le a b = true) :=
  ⟨stableSort_perm le l, stableSort_sorted h l⟩

/-- sortedness + permutation determine the key sequence: if `le` is a total preorder and elements that are
    mutually `le` have the same `key`, then any two sorted permutations of each other have equal key sequences. -/
theorem sorted_perm_determines_keys {α κ} (le : α → α → Bool) (h : TotalPreorder le) (key : α → κ)
    (E : ∀ a b, le a b = true → le b a = true → key a = key b) (l l' : List α) (hp : l.Perm l')
    (hs : l.Pairwise (fun a b => le a b = true)) (hs' : l'.Pairwise (fun a b => le a b = true)) :
    l.map key = l'.map key :=
  sorted_perm_map_key_eq h key E _ l l' rfl hp hs hs'

/-- **C20.3 (general)** permuting the input of a stable sort does not change the key sequence of the output. -/
theorem stableSort_consistent {α κ} (le : α → α → Bool) (h : TotalPreorder le) (key : α → κ)
    (E : ∀ a b, le a b = true → le b a = true → key a = key b) (l₁ l₂ : List α) (hp : l₁.Perm l₂) :
    (stableSort le l₁).map key = (stableSort le l₂).map key :=
  stableSort_key_perm_invariant h key E hp

/-- **C20.3** `smart_sort_scaffolds` is consistent: two initial orders of the same multiset of scaffolds
    give outputs with the same sequence of `(rank, natural_key)`. -/
theorem smartSort_consistent (scs₁ scs₂ o₁ o₂ : List Scaffold) (hp : scs₁.Perm scs₂)
    (h₁ : smartSort scs₁ = .ok o₁) (h₂ : smartSort scs₂ = .ok o₂) :
    o₁.map (fun s => (s.rank, keyOf s.name)) = o₂.map (fun s => (s.rank, keyOf s.name)) := by
  rw [smartSort_eq'] at h₁ h₂; cases h₁; cases h₂
  exact stableSort_key_perm_invariant (totalPreorder_comap smartLe_totalPreorder smartKey) smartKey
    (fun a b h1 h2 => smartLe_antisymm' h1 h2) hp

/-- … and if no two scaffolds share `(rank, natural_key)` the outputs are identical. -/
theorem smartSort_deterministic (scs₁ scs₂ o₁ o₂ : List Scaffold) (hp : scs₁.Perm scs₂)
    (hn : (scs₁.map (fun s => (s.rank, keyOf s.name))).Nodup)
    (h₁ : smartSort scs₁ = .ok o₁) (h₂ : smartSort scs₂ = .ok o₂) : o₁ = o₂ := by
  rw [smartSort_eq'] at h₁ h₂; cases h₁; cases h₂
  exact stableSort_perm_invariant_of_nodup smartLe_totalPreorder (fun a b => smartLe_antisymm') smartKey hp hn

theorem sortedByName_consistent (scs₁ scs₂ o₁ o₂ : List Scaffold) (hp : scs₁.Perm scs₂)
    (h₁ : sortedByName scs₁ = .ok o₁) (h₂ : sortedByName scs₂ = .ok o₂) :
    o₁.map (fun s => keyOf s.name) = o₂.map (fun s => keyOf s.name) := by
  rw [sortedByName_eq'] at h₁ h₂; cases h₁; cases h₂
  exact stableSort_key_perm_invariant (totalPreorder_comap keyLe_totalPreorder (fun s => keyOf s.name))
    (fun s => keyOf s.name) (fun a b h1 h2 => keyLe_antisymm' h1 h2) hp

theorem sortedByName_deterministic (scs₁ scs₂ o₁ o₂ : List Scaffold) (hp : scs₁.Perm scs₂)
    (hn : (scs₁.map (fun s => keyOf s.name)).Nodup)
    (h₁ : sortedByName scs₁ = .ok o₁) (h₂ : sortedByName scs₂ = .ok o₂) : o₁ = o₂ := by
  rw [sortedByName_eq'] at h₁ h₂; cases h₁; cases h₂
  exact stableSort_perm_invariant_of_nodup keyLe_totalPreorder (fun a b => keyLe_antisymm')
    (fun s => keyOf s.name) hp hn

/-- what "up to names with equal keys" means precisely: the sort is stable, so the scaffolds sharing any given
    `(rank, natural_key)` come out in the order they went in. -/
theorem smartSort_stable (scs out : List Scaffold) (h : smartSort scs = .ok out) (k : Int × NatKey) :
    out.filter (fun s => (s.rank, keyOf s.name) = k) = scs.filter (fun s => (s.rank, keyOf s.name) = k) := by
  rw [smartSort_eq'] at h; cases h
  by_cases hk : ∃ a ∈ scs, smartKey a = k
  · obtain ⟨a, _, rfl⟩ := hk
    have hst := stableSort_stable (totalPreorder_comap smartLe_totalPreorder smartKey) a scs
    have hiff : ∀ s : Scaffold, (smartLe (smartKey a) (smartKey s) && smartLe (smartKey s) (smartKey a))
        = decide ((s.rank, keyOf s.name) = smartKey a) := by
      intro s
      rw [Bool.eq_iff_iff]
      simp only [Bool.and_eq_true, decide_eq_true_eq]
      constructor
      · rintro ⟨h1, h2⟩; exact smartLe_antisymm' h2 h1
      · intro e
        have : smartKey s = smartKey a := e
        rw [this]; exact ⟨smartLe_refl' _, smartLe_refl' _⟩
    simp only [hiff] at hst
    exact hst
  · have hnone : ∀ l : List Scaffold, (∀ s ∈ l, s ∈ scs) →
        l.filter (fun s => decide ((s.rank, keyOf s.name) = k)) = [] := by
      intro l hl
      rw [List.filter_eq_nil_iff]
      intro s hs e
      exact hk ⟨s, hl s hs, by simpa [smartKey] using e⟩
    rw [hnone (smartSorted scs) (fun s hs => (stableSort_perm _ scs).subset hs), hnone scs (fun s hs => hs)]

/-- non-vacuity: a non-trivial permutation, equal keys (`SUPER_02` / `SUPER_2`) included -/
example :
    let a : Scaffold := { name := "SUPER_10".toList }
    let b : Scaffold := { name := "SUPER_02".toList }
    let c : Scaffold := { name := "SUPER_2".toList }
    [a, b, c].Perm [c, a, b] ∧ smartSort [a, b, c] = .ok [b, c, a] ∧ smartSort [c, a, b] = .ok [c, b, a] := by
  refine ⟨?_, by decide, by decide⟩
  exact (List.perm_append_comm (l₁ := [_, _]) (l₂ := [_]))


/-! ## side conditions used below

`keyLt a b` (defined in `Proofs/C20Names.lean`) is `keyLe a b = true ∧ keyLe b a = false`, i.e. Python's strict `<`
on the key tuples. -/

/-- the prefix is empty or its last character is neither `I` nor an ASCII digit (so that no numeral / digit run
    of the prefix can merge with what follows) -/
def PrefixOk (p : Str) : Prop := ∀ c, p.getLast? = some c → c ≠ 'I' ∧ isDigit c = false

/-- the remainder does not start with an ASCII digit (so that it does not continue a digit run) -/
def NoDigitHead (s : Str) : Prop := ∀ c, s.head? = some c → isDigit c = false

instance (p : Str) : Decidable (PrefixOk p) := decidable_of_iff _ (okPrefix_iff p)
instance (s : Str) : Decidable (NoDigitHead s) := decidable_of_iff _ (startsDigit_false_iff s)

example : PrefixOk "SUPER_".toList := by decide
example : PrefixOk "chrIV_".toList := by decide
example : NoDigitHead "_unloc_3".toList := by decide
example : NoDigitHead [] := by decide

/-- a common prefix satisfying `PrefixOk` has no influence on the comparison (the engine behind 4, 5, 6) -/
theorem common_prefix_irrelevant (p x y : Str) (hp : PrefixOk p) :
    keyLe (keyOf (p ++ x)) (keyOf (p ++ y)) = keyLe (keyOf x) (keyOf y) :=
  keyLe_prefix ((okPrefix_iff p).mpr hp) x y

/-- the side condition cannot simply be dropped: after a prefix ending in `I` the numerals regroup
    (`I·III` = `III·I` → (3,1) but `I·IV` = `II·V` → (2,"V")), after a digit the digit runs merge. -/
example : keyLt (keyOf "III".toList) (keyOf "IV".toList) ∧ keyLt (keyOf "IIV".toList) (keyOf "IIII".toList) := by decide
example : keyLt (keyOf "2".toList) (keyOf "B".toList) ∧ keyLt (keyOf "1B".toList) (keyOf "12".toList) := by decide

/-! ## 5  nematode numerals compare by value -/

/-- table facts, re-checked against the generated table on every build -/
theorem numeral_values :
    tokenValue ['I'] = .ok 1 ∧ tokenValue ['I', 'I'] = .ok 2 ∧ tokenValue ['I', 'I', 'I'] = .ok 3 ∧
    tokenValue ['I', 'V'] = .ok 4 := by decide

/-- **C20.5** after a common prefix (`PrefixOk`) the names `…I…`, `…II…`, `…III…`, `…IV…` compare in this order,
    whatever follows the numeral, provided what follows `I` does not start with `I`/`V` and what follows `II` does
    not start with `I` (otherwise it is a different numeral). -/
theorem numerals_by_value (p s₁ s₂ s₃ s₄ : Str) (hp : PrefixOk p)
    (h1 : s₁.head? ≠ some 'I') (h1' : s₁.head? ≠ some 'V') (h2 : s₂.head? ≠ some 'I') :
    keyLt (keyOf (p ++ 'I' :: s₁)) (keyOf (p ++ 'I' :: 'I' :: s₂)) ∧
    keyLt (keyOf (p ++ 'I' :: 'I' :: s₂)) (keyOf (p ++ 'I' :: 'I' :: 'I' :: s₃)) ∧
    keyLt (keyOf (p ++ 'I' :: 'I' :: 'I' :: s₃)) (keyOf (p ++ 'I' :: 'V' :: s₄)) := by
  have hp' := (okPrefix_iff p).mpr hp
  have e1 := keyOf_I ((notHead_iff _ _).mpr h1) ((notHead_iff _ _).mpr h1')
  have e2 := keyOf_II ((notHead_iff _ _).mpr h2)
  refine ⟨keyLt_prefix hp' ?_, keyLt_prefix hp' ?_, keyLt_prefix hp' ?_⟩
  · rw [e1, e2]; exact keyLt_kPush_of_lt (by decide) _ _
  · rw [e2, keyOf_III]; exact keyLt_kPush_of_lt (by decide) _ _
  · rw [keyOf_III, keyOf_IV]; exact keyLt_kPush_of_lt (by decide) _ _

example : keyLt (keyOf "chrI_x".toList) (keyOf "chrII".toList) ∧ keyLt (keyOf "chrII".toList) (keyOf "chrIII_a".toList)
    ∧ keyLt (keyOf "chrIII_a".toList) (keyOf "chrIV".toList) := by decide
/-- `V` and `X` are deliberately not in the table (source comment: they "will sort in the correct order within
    nematode chromosomes anyway"): they stay text, and text `"chrV"`/`"chrX"` is greater than text `"chr"`
    followed by a number, so `I < II < III < IV < V < X` still holds. -/
example : keyLt (keyOf "chrI".toList) (keyOf "chrV".toList) ∧ keyLt (keyOf "chrIV".toList) (keyOf "chrV".toList)
    ∧ keyLt (keyOf "chrIV".toList) (keyOf "chrX".toList) := by decide

/-! ## 4  embedded decimal numbers compare by value -/

/-- `natToStr` (Python `str(n)`) produces a non-empty run of ASCII digits, with no leading zero for `n > 0`,
    and the key value of that run is `n`. -/
theorem natToStr_facts (n : Nat) :
    natToStr n ≠ [] ∧ (∀ c ∈ natToStr n, isDigit c = true) ∧ (0 < n → (natToStr n).head? ≠ some '0') ∧
    tokenValue (natToStr n) = .ok (n : Int) := by
  refine ⟨natToStr_ne_nil n, natToStr_allDigits n, natToStr_no_leading_zero n, ?_⟩
  rw [tokenValue_digits (natToStr_ne_nil n) (natToStr_allDigits n), digitsVal_natToStr]

/-- **C20.4** `m < n → key (p ++ str m ++ s) < key (p ++ str n ++ s')` for every prefix with `PrefixOk` and all
    remainders that do not start with a digit (in particular `s = s' = []`): SUPER_2 before SUPER_10. -/
theorem numeric_aware (p s s' : Str) (m n : Nat) (hp : PrefixOk p) (hs : NoDigitHead s) (hs' : NoDigitHead s')
    (h : m < n) : keyLt (keyOf (p ++ natToStr m ++ s)) (keyOf (p ++ natToStr n ++ s')) := by
  rw [List.append_assoc, List.append_assoc]
  refine keyLt_prefix ((okPrefix_iff p).mpr hp) ?_
  rw [keyOf_natToStr_append m ((startsDigit_false_iff s).mpr hs),
      keyOf_natToStr_append n ((startsDigit_false_iff s').mpr hs')]
  exact keyLt_kPush_of_lt (by omega) _ _

theorem numeric_aware_end (p : Str) (m n : Nat) (hp : PrefixOk p) (h : m < n) :
    keyLt (keyOf (p ++ natToStr m)) (keyOf (p ++ natToStr n)) := by
  have := numeric_aware p [] [] m n hp (by decide) (by decide) h
  simpa using this

/-- equal numbers: the remainder decides -/
theorem numeric_tie (p s s' : Str) (n : Nat) (hp : PrefixOk p) (hs : NoDigitHead s) (hs' : NoDigitHead s') :
    keyLe (keyOf (p ++ natToStr n ++ s)) (keyOf (p ++ natToStr n ++ s')) = keyLe (keyOf s) (keyOf s') := by
  rw [List.append_assoc, List.append_assoc, keyLe_prefix ((okPrefix_iff p).mpr hp),
      keyOf_natToStr_append n ((startsDigit_false_iff s).mpr hs),
      keyOf_natToStr_append n ((startsDigit_false_iff s').mpr hs'), keyLe_kPush_same]

example : keyLt (keyOf "SUPER_2".toList) (keyOf "SUPER_10".toList) := by decide
example : natToStr 10 = "10".toList ∧ natToStr 2 = "2".toList := by decide
/-- plain string comparison would have put them the other way round -/
example : strLe "SUPER_10".toList "SUPER_2".toList = true := by decide

/-! ## 6  an unloc sorts after its own chromosome and before the next one -/

/-- general form: any non-empty extension of chromosome `n` that does not continue its number sorts after
    chromosome `n` and before every chromosome `n' > n` (and all its extensions). -/
theorem extension_between (p s s' : Str) (n n' : Nat) (hp : PrefixOk p) (hne : s ≠ []) (hs : NoDigitHead s)
    (hs' : NoDigitHead s') (h : n < n') :
    keyLt (keyOf (p ++ natToStr n)) (keyOf (p ++ natToStr n ++ s)) ∧
    keyLt (keyOf (p ++ natToStr n ++ s)) (keyOf (p ++ natToStr n' ++ s')) := by
  refine ⟨?_, numeric_aware p s s' n n' hp hs hs' h⟩
  rw [List.append_assoc]
  refine keyLt_prefix ((okPrefix_iff p).mpr hp) ?_
  rw [keyOf_natToStr_append n ((startsDigit_false_iff s).mpr hs), keyOf_natToStr]
  unfold keyLt
  rw [keyLe_kPush_same, keyLe_kPush_same]
  exact keyLt_nil_of_ne_nil hne

/-- `"_unloc_"` -/
def unlocInfix : Str := ['_', 'u', 'n', 'l', 'o', 'c', '_']
example : unlocInfix = "_unloc_".toList := by decide

/-- **C20.6** for chromosomes `c = p ++ str n`, `c' = p ++ str n'` with `n < n'`:
    `key c < key (c ++ "_unloc_" ++ str k) < key c'`. -/
theorem unloc_between (p : Str) (n n' k : Nat) (hp : PrefixOk p) (h : n < n') :
    keyLt (keyOf (p ++ natToStr n)) (keyOf (p ++ natToStr n ++ unlocInfix ++ natToStr k)) ∧
    keyLt (keyOf (p ++ natToStr n ++ unlocInfix ++ natToStr k)) (keyOf (p ++ natToStr n')) := by
  have := extension_between p (unlocInfix ++ natToStr k) [] n n' hp (by simp [unlocInfix])
    (by intro c hc; simp [unlocInfix] at hc; subst hc; decide) (by decide) h
  simpa [List.append_assoc] using this

/-- the unlocs of one chromosome are ordered by their own number -/
theorem unloc_order (p : Str) (n k k' : Nat) (h : k < k') :
    keyLt (keyOf (p ++ natToStr n ++ unlocInfix ++ natToStr k))
          (keyOf (p ++ natToStr n ++ unlocInfix ++ natToStr k')) := by
  refine numeric_aware_end (p ++ natToStr n ++ unlocInfix) k k' ?_ h
  intro c hc
  simp [unlocInfix] at hc
  subst hc; decide

example : keyLt (keyOf "SUPER_2".toList) (keyOf "SUPER_2_unloc_1".toList) ∧
    keyLt (keyOf "SUPER_2_unloc_1".toList) (keyOf "SUPER_2_unloc_12".toList) ∧
    keyLt (keyOf "SUPER_2_unloc_12".toList) (keyOf "SUPER_3".toList) ∧
    keyLt (keyOf "SUPER_3".toList) (keyOf "SUPER_10".toList) := by decide

/-- end to end: ranks first, then numbers by value, unlocs directly behind their chromosome -/
example : sortedByName [{ name := "SUPER_10".toList }, { name := "SUPER_2_unloc_1".toList },
      { name := "SUPER_3".toList }, { name := "SUPER_2".toList }]
    = .ok [{ name := "SUPER_2".toList }, { name := "SUPER_2_unloc_1".toList },
      { name := "SUPER_3".toList }, { name := "SUPER_10".toList }] := by decide

end AgpTpf.C20
