/-
  C13 — Streaming is buffer-size independent and memory-bounded.

  Model: `fwdChunkList` / `revChunkList` / `gapChunkList` (`fwd_chunks`, `rev_chunks`, `get_gap_iter`, fasta/index.py),
  `streamAssembly` with its observation fields `chunkSizes` (length of every BytesIO chunk produced) and `reads`
  (size of every `read(n)` against the FASTA file), `indexFasta` with `maxBuffered` (largest sequence buffer held).

  Proved, for EVERY file, index, assembly and every buffer size from one residue up:
  * `fwd_chunks_tile`, `rev_chunks_reverse`, `gap_chunks` — the chunk iterators cut `[start, end]` (a gap of `len`)
    into consecutive pieces of 1..bs residues (0..bs for the last piece of a gap) that tile it exactly;
  * `chunk_concat_independent` — the concatenation of the forward chunks is the same for every buffer size;
  * `stream_buffer_size_independent` — `write_assembly` writes byte-identical files for every two buffer sizes;
  * `stream_memory_bound` — no chunk of sequence, reverse-complemented fragment or gap ever exceeds `bs` bytes and
    no single `read` asks for more than `bs` bytes, however long the fragment or gap;
  * `index_buffer_size_independent` — indexing ANY byte stream whose first line is a header line gives the same index
    entries (offsets, lengths, line geometry), the same scaffolds with their N-gap rows, or the same exception, for
    every two buffer sizes (for headerless input the exception raised can depend on the buffer size: see the
    counterexample next to the theorem);
  * `index_memory_bound` — the indexer's sequence buffer never exceeds `bs` residues plus one input line.
  The two halves meet in the index: `stream_*` hold for any index that lays the records out (`RowOK`); that the index
  computed by `indexFasta` does so is index correctness (C04), not restated here.

  Helper lemmas: AgpTpf/Proofs/C03Chunks.lean, C03Stream.lean, C03Seq.lean, C03Wrap.lean, C03Index.lean, C03IndexIndep.lean.
-/
import AgpTpf.Proofs.C03Stream
import AgpTpf.Proofs.C03Index
import AgpTpf.Proofs.C03IndexIndep
import AgpTpf.Proofs.C03Example
namespace AgpTpf.C13
open AgpTpf AgpTpf.ChunkProofs AgpTpf.WrapProofs AgpTpf.SeqProofs AgpTpf.StreamProofs AgpTpf.StreamExample

/-! ### chunk arithmetic (`bs ≥ 1`, `start ≤ end`)

  `Tiles bs a stop l` (Proofs/C03Chunks.lean): `l = [(cs₀,ce₀),…]` with `cs₀ = a`, `cs_k ≤ ce_k`,
  `ce_k - cs_k + 1 ≤ bs`, `cs_(k+1) = ce_k + 1`, and the last `ce = stop`. -/

/-- `fwd_chunks`: a non-empty list of consecutive closed intervals, first starting at `start`, each next one starting
    right after the previous one, last ending at `stop`, each 1..bs long, total `stop - start + 1`. -/
theorem fwd_chunks_tile (start stop bs : Int) (hbs : 1 ≤ bs) (h : start ≤ stop) :
    ∃ hne : fwdChunkList start stop bs ≠ [],
      ((fwdChunkList start stop bs).head hne).1 = start ∧
      ((fwdChunkList start stop bs).getLast hne).2 = stop ∧
      (∀ k (hk : k + 1 < (fwdChunkList start stop bs).length),
        ((fwdChunkList start stop bs)[k + 1]).1 = ((fwdChunkList start stop bs)[k]).2 + 1) ∧
      (∀ c ∈ fwdChunkList start stop bs, 1 ≤ c.2 - c.1 + 1 ∧ c.2 - c.1 + 1 ≤ bs ∧ start ≤ c.1 ∧ c.2 ≤ stop) ∧
      sumInts ((fwdChunkList start stop bs).map (fun c => c.2 - c.1 + 1)) = stop - start + 1 := by
  have ht := fwdChunkList_tiles start stop bs hbs h
  have hne := fwdChunkList_ne_nil start stop bs hbs h
  refine ⟨hne, ht.head hne, ht.last hne, ht.consecutive, ?_, ht.sum⟩
  intro c hc
  have := ht.size_le c hc
  have := ht.within c hc
  omega

/-- the same, as the inductive tiling predicate -/
theorem fwd_chunks_tiles (start stop bs : Int) (hbs : 1 ≤ bs) (h : start ≤ stop) :
    Tiles bs start stop (fwdChunkList start stop bs) := fwdChunkList_tiles start stop bs hbs h

/-- `rev_chunks` visits exactly the forward chunks, last to first -/
theorem rev_chunks_reverse (start stop bs : Int) (hbs : 1 ≤ bs) (h : start ≤ stop) :
    revChunkList start stop bs = (fwdChunkList start stop bs).reverse :=
  revChunkList_eq_reverse start stop bs hbs h

/-- `get_gap_iter`: every chunk has 0..bs bytes and together they have `max 0 len` bytes (`len` for `len ≥ 0`) -/
theorem gap_chunks (len bs : Int) (hbs : 1 ≤ bs) :
    sumInts (gapChunkList len bs) = max 0 len ∧ ∀ c ∈ gapChunkList len bs, 0 ≤ c ∧ c ≤ bs :=
  gapChunkList_spec len bs hbs

example : fwdChunkList 5 14 3 = [(5, 7), (8, 10), (11, 13), (14, 14)] := by decide
example : revChunkList 5 14 3 = [(14, 14), (11, 13), (8, 10), (5, 7)] := by decide
example : fwdChunkList 5 13 3 = [(5, 7), (8, 10), (11, 13)] := by decide
example : gapChunkList 7 3 = [3, 3, 1] := by decide
example : gapChunkList 6 3 = [3, 3, 0] := by decide   -- a trailing empty chunk when `bs` divides the gap length
example : gapChunkList 0 3 = [0] := by decide

/-- the concatenation of the forward chunks of a sequence is the requested interval — whatever the buffer size
    (`slice res a b` = residues `a..b`, 1-based closed) -/
theorem fwd_chunks_concat (res : Bytes) (start stop bs : Int) (hbs : 1 ≤ bs) (h0 : 1 ≤ start) (h : start ≤ stop) :
    ((fwdChunkList start stop bs).map (fun c => slice res c.1 c.2)).flatten = slice res start stop :=
  Tiles.glue (bs := bs) (slice res) 1 (fun a b c ha hab hbc => slice_append res a b c ha hab hbc) h0
    (fwdChunkList_tiles start stop bs hbs h) (fwdChunkList_ne_nil start stop bs hbs h)

theorem chunk_concat_independent (res : Bytes) (start stop bs bs' : Int) (hbs : 1 ≤ bs) (hbs' : 1 ≤ bs')
    (h0 : 1 ≤ start) (h : start ≤ stop) :
    ((fwdChunkList start stop bs).map (fun c => slice res c.1 c.2)).flatten
      = ((fwdChunkList start stop bs').map (fun c => slice res c.1 c.2)).flatten := by
  rw [fwd_chunks_concat res start stop bs hbs h0 h, fwd_chunks_concat res start stop bs' hbs' h0 h]

/-- likewise for minus-strand rows: the reverse-complemented chunks, last to first, concatenate to the reverse
    complement of the interval -/
theorem rev_chunks_concat (res : Bytes) (start stop bs : Int) (hbs : 1 ≤ bs) (h0 : 1 ≤ start) (h : start ≤ stop) :
    ((revChunkList start stop bs).map (fun c => reverseComplement (slice res c.1 c.2))).flatten
      = reverseComplement (slice res start stop) := by
  rw [rev_chunks_reverse start stop bs hbs h, ← fwd_chunks_concat res start stop bs hbs h0 h]
  exact flatten_rc_reverse (fun c => slice res c.1 c.2) _

/-! ### the stream

  `RowOK file idx resOf row` (Proofs/C03Stream.lean): a fragment row names an index entry whose offsets lay the
  residues `resOf name` out in `file`, and `1 ≤ start ≤ end ≤ |resOf name|`; gap rows (any length) are always OK. -/

/-- byte-identical output for every two buffer sizes from one residue up (and both runs succeed) -/
theorem stream_buffer_size_independent {bs bs' w : Int} (hbs : 1 ≤ bs) (hbs' : 1 ≤ bs') (hw : 1 ≤ w)
    (file : Bytes) (idx : List (Str × FastaInfo)) (resOf : Str → Bytes) (scs : List Scaffold)
    (hok : ∀ sc ∈ scs, ∀ r ∈ sc.rows, RowOK file idx resOf r) :
    ∃ lg lg', streamAssembly file idx bs w scs = .ok lg ∧ streamAssembly file idx bs' w scs = .ok lg' ∧
      lg.out = lg'.out := by
  obtain ⟨lg, h1, h2, -, -⟩ := assembly_spec hbs hw file idx resOf scs { want := w } hok (by simp) (by simp)
  obtain ⟨lg', h1', h2', -, -⟩ := assembly_spec hbs' hw file idx resOf scs { want := w } hok (by simp) (by simp)
  exact ⟨lg, lg', h1, h1', by rw [h2, h2']⟩

/-- memory bound: every chunk the iterators hand to the writer (sequence, reverse-complemented sequence or gap) is
    at most `bs` bytes long, and every single `read(n)` against the FASTA file has `0 ≤ n ≤ bs` — for fragments and
    gaps of any length. -/
theorem stream_memory_bound {bs w : Int} (hbs : 1 ≤ bs) (hw : 1 ≤ w)
    (file : Bytes) (idx : List (Str × FastaInfo)) (resOf : Str → Bytes) (scs : List Scaffold)
    (hok : ∀ sc ∈ scs, ∀ r ∈ sc.rows, RowOK file idx resOf r) :
    ∃ lg, streamAssembly file idx bs w scs = .ok lg ∧
      (∀ c : Nat, c ∈ lg.chunkSizes → (c : Int) ≤ bs) ∧ (∀ r ∈ lg.reads, 0 ≤ r ∧ r ≤ bs) := by
  obtain ⟨lg, h1, -, h3, h4⟩ := assembly_spec hbs hw file idx resOf scs { want := w } hok (by simp) (by simp)
  exact ⟨lg, h1, h3, h4⟩

/-- the writer itself holds at most one `read(want)` of a chunk, `want ≤ w`: see `C03.writer_is_wrapper`;
    and the bytes it writes do not depend on how the sequence is cut into chunks: `C03.writer_chunking_irrelevant`. -/
theorem writer_holds_at_most_a_line (want : Int) (chunk : Bytes) (h1 : 1 ≤ want) :
    (chunk.take want.toNat).length ≤ want.toNat ∧ ((chunk.take want.toNat).length : Int) ≤ want := by
  simp only [List.length_take]; omega

example : ∀ sc ∈ [exScaffold, exScaffold.reverse], ∀ r ∈ sc.rows, RowOK exFile exIdx exResOf r := by
  intro sc hsc
  simp only [List.mem_cons, List.not_mem_nil, or_false] at hsc
  rcases hsc with rfl | rfl
  · exact exRowsOK
  · intro r hr
    simp only [Scaffold.reverse, List.mem_map, List.mem_reverse] at hr
    obtain ⟨r0, hr0, rfl⟩ := hr
    have := exRowsOK r0 hr0
    cases r0 <;> exact this

/-- the model run on the fixture with buffer sizes 1, 2, 3, 5, 100: same bytes; chunk sizes as predicted -/
example : (streamAssembly exFile exIdx 1 4 [exScaffold]).toOption.map (·.out)
    = (streamAssembly exFile exIdx 100 4 [exScaffold]).toOption.map (·.out) := by decide +kernel
example : (streamAssembly exFile exIdx 2 4 [exScaffold]).toOption.map (·.out)
    = (streamAssembly exFile exIdx 5 4 [exScaffold]).toOption.map (·.out) := by decide +kernel
example : (streamAssembly exFile exIdx 3 4 [exScaffold]).toOption.map (·.chunkSizes)
    = some [3, 1, 2, 2, 3] := by decide +kernel
example : (streamAssembly exFile exIdx 3 4 [exScaffold]).toOption.map (·.reads)
    = some [3, 1, 2, 3] := by decide +kernel

/-! ### the indexer -/

/-- Indexing is buffer-size independent: for ANY list of input lines whose first line is a header line (starts with
    `>` = 62; the rest may be well-formed FASTA or not) and ANY two buffer sizes, `index_fasta_file` ends in the same
    state up to the memory observation `maxBuffered` (`IndexProofs.strip` sets that one field to 0) — same index
    entries, same scaffolds and gap rows, same offsets — or raises the same exception. -/
theorem index_buffer_size_independent_state (lines : List Bytes) (bs bs' : Int)
    (hhead : lines.head?.bind (·.head?) = some 62) :
    Except.map IndexProofs.strip (indexFasta lines bs) = Except.map IndexProofs.strip (indexFasta lines bs') :=
  IndexProofs.indexFasta_bs_independent lines bs bs' hhead

/-- in particular the index and the assembly read from the FASTA file are identical -/
theorem index_buffer_size_independent (lines : List Bytes) (bs bs' : Int)
    (hhead : lines.head?.bind (·.head?) = some 62) :
    Except.map (fun st => (st.idx, st.scaffolds)) (indexFasta lines bs)
      = Except.map (fun st => (st.idx, st.scaffolds)) (indexFasta lines bs') := by
  have h := IndexProofs.indexFasta_bs_independent lines bs bs' hhead
  have key : ∀ x : R IdxState, Except.map (fun st => (st.idx, st.scaffolds)) x
      = Except.map (fun st => (st.idx, st.scaffolds)) (Except.map IndexProofs.strip x) := by
    intro x; cases x <;> rfl
  rw [key (indexFasta lines bs), key (indexFasta lines bs'), h]

example : (bLines exFile).head?.bind (·.head?) = some 62 := by decide

/-- Without the header hypothesis the statement is FALSE of the code (malformed input only): a headerless,
    unterminated single line `AC` raises `ValueError` ("no sequences") with a large buffer but `TypeError`
    (`process_seq_buffer` adds to `seq_length = None`) with a buffer smaller than the line — the exception raised
    depends on the buffer size. Both runs fail, so no index ever differs. -/
example : (match indexFasta [[65, 67]] 100 with | .error e => some e | .ok _ => none) = some Err.value := by
  decide +kernel
example : (match indexFasta [[65, 67]] 1 with | .error e => some e | .ok _ => none) = some Err.type := by
  decide +kernel

example : (indexFasta (bLines exFile) 1).toOption.map (fun st => (st.idx, st.scaffolds))
    = (indexFasta (bLines exFile) 7).toOption.map (fun st => (st.idx, st.scaffolds)) := by decide +kernel
example : (indexFasta (bLines exFile) 1).toOption.map (·.scaffolds) = some
    [{ name := "x".toList, rows :=
        [.frag { oid := 0, name := "x".toList, start := 1, stop := 4, strand := 1 },
         .gap { length := 2, gapType := Gen.fastaGapType },
         .frag { oid := 1, name := "x".toList, start := 7, stop := 11, strand := 1 }] }] := by decide +kernel

/-- While indexing with buffer size `bs ≥ 0` a file whose lines (binary mode, terminator included) are at most `m`
    bytes long, the sequence buffer never holds more than `bs + m` residues ("plus one input line"), however long
    the sequences are. (`maxBuffered` records the buffer length after every append.) -/
theorem index_memory_bound (lines : List Bytes) (bs : Int) (hbs : 0 ≤ bs) (m : Nat)
    (hm : ∀ l ∈ lines, l.length ≤ m) (st : IdxState) (h : indexFasta lines bs = .ok st) :
    st.maxBuffered ≤ bs.toNat + m :=
  IndexProofs.indexFasta_maxBuffered lines bs hbs m hm st h

example : (indexFasta (bLines exFile) 3).toOption.map (·.maxBuffered) = some 4 := by decide +kernel
example : (indexFasta (bLines exFile) 100).toOption.map (·.maxBuffered) = some 11 := by decide +kernel
example : ∀ l ∈ bLines exFile, l.length ≤ 5 := by decide

end AgpTpf.C13
