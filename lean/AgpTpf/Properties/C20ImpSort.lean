/-
  C20 (T1c, phase 2) — `Assembly.smart_sort_scaffolds` of the Python source (assembly.py), as translated, IS the model's `smartSort`.

  Source side: `Gen.Imp.Assembly_smart_sort_scaffolds heap_b refs` in `AgpTpf/Gen/Imp2.lean` (generated; carries the Python text):
  `self.scaffolds.sort(key=lambda s: (s.rank, self.name_natural_key(s)))` over REFERENCES into the arena `heap_b` of fused Scaffold
  objects = `PyRt.sortedByKeyLt? PyRt.smartKeyLt? …` (`Model/PyRtPhase2.lean`): all keys first, TypeError if SOME pair of keys present is
  incomparable (an `int` meets a `str` in Python's tuple comparison), otherwise the stable sort by `¬ (b < a)`.
  Model side: `smartSort : List Scaffold → R (List Scaffold)` (`Model/NaturalKey.lean`), the stable sort by `smartLe` on `(rank, NatKey)`.

   1  `flat_keys_comparable`, `smart_keys_comparable`   Python's `<` on two keys `name_natural_key` produces never raises TypeError
   2  `flat_key_lt_iff`, `smart_key_lt_iff`             … and is the model's `keyLe` / `smartLe` minus equality;
      `flat_key_not_lt`, `smart_key_not_lt`             the comparator the sort uses, `¬ (b < a)`, IS `keyLe a b` / `smartLe a b`
                                                        (so the two sorts agree on equal keys too: same stability direction)
   3  `smart_sort_is_source`                            NO hypothesis (any arena, any references, dangling ones included)
      `smart_sort_refs`, `smart_sort_perm`, `smart_sort_stable`   the result on the references themselves
   4  `smart_sort_total`                                the source's sort never raises

  No difference between source and model was found.  (`PyRt.sortedByKeyLt?` over-approximates WHEN CPython's timsort would raise TypeError;
  by 1 that branch is dead here, so the over-approximation is not observable for this caller.)

  Proofs: `AgpTpf/Proofs/ImpSmartSort.lean` (a lemma about `sortedByKeyLt?` for an ARBITRARY key function with a hypothesis on what one
  evaluation returns; the generated key lambda is only met by `simp`).
-/
import AgpTpf.Proofs.ImpSmartSort
namespace AgpTpf.C20
open AgpTpf

/-! ## 1–2  Python's `<` on the keys -/

/-- **1** texts and numbers alternate at the same positions in every flat key: Python's tuple comparison of two keys never compares an
    `int` with a `str` (no TypeError). -/
theorem flat_keys_comparable (a b : NatKey) : (PyRt.keyToksLt? (flatKey a) (flatKey b)).isSome := by
  rw [ImpSmartSort.keyLt]; rfl

/-- **2** … and `<` on flat keys is the model's `keyLe` minus equality -/
theorem flat_key_lt_iff (a b : NatKey) : PyRt.keyToksLt? (flatKey a) (flatKey b) = some (keyLe a b && a ≠ b) := by
  rw [ImpSmartSort.keyLt]; simp

/-- the comparator a sort by these keys uses: `¬ (b < a)` is `keyLe a b` -/
theorem flat_key_not_lt (a b : NatKey) : (!((PyRt.keyToksLt? (flatKey b) (flatKey a)).getD false)) = keyLe a b :=
  ImpSmartSort.not_keyLt_swap a b

/-- the same with ranks: `(rank, key)` tuples are always comparable -/
theorem smart_keys_comparable (r₁ r₂ : Int) (a b : NatKey) :
    (PyRt.smartKeyLt? (r₁, flatKey a) (r₂, flatKey b)).isSome := by
  rw [ImpSmartSort.smartLt]; rfl

theorem smart_key_lt_iff (r₁ r₂ : Int) (a b : NatKey) :
    PyRt.smartKeyLt? (r₁, flatKey a) (r₂, flatKey b) = some (smartLe (r₁, a) (r₂, b) && (r₁, a) ≠ (r₂, b)) := by
  rw [ImpSmartSort.smartLt]; simp

/-- `list.sort` puts `x` in front of the first `y` that is not `< x`; the model's `stableSort` in front of the first `y` with
    `smartLe x y`: the same test (equal keys included — same stability direction) -/
theorem smart_key_not_lt (r₁ r₂ : Int) (a b : NatKey) :
    (!((PyRt.smartKeyLt? (r₂, flatKey b) (r₁, flatKey a)).getD false)) = smartLe (r₁, a) (r₂, b) :=
  ImpSmartSort.not_smartLt_swap r₁ r₂ a b

example : PyRt.keyToksLt? (flatKey (keyOf "SUPER_2".toList)) (flatKey (keyOf "SUPER_10".toList)) = some true := by decide
example : PyRt.keyToksLt? (flatKey (keyOf "SUPER_10".toList)) (flatKey (keyOf "SUPER_2".toList)) = some false := by decide
example : PyRt.keyToksLt? (flatKey (keyOf "SUPER_02".toList)) (flatKey (keyOf "SUPER_2".toList)) = some false := by decide
example : PyRt.smartKeyLt? (2, flatKey (keyOf "A".toList)) (1, flatKey (keyOf "B".toList)) = some false := by decide
/-- the TypeError of the run-time semantics is real: keys that do NOT alternate the same way are incomparable -/
example : PyRt.keyToksLt? [.txt ['a'], .num 1] [.txt ['a'], .txt ['b']] = none := by decide
example : PyRt.sortedByKeyLt? PyRt.keyToksLt? (fun (x : List PyRt.KeyTok) => .ok x)
    [[.txt ['a'], .num 1], [.txt ['a'], .txt ['b']]] = .error .type := by decide

/-! ## 3  the tie -/

/-- the source's sort on the REFERENCES: the stable sort by the model's `smartLe` on `(rank, natural key)` of the scaffold each reference
    points at (`ImpSmartSort.refSorted`) — for every arena and every list of references -/
theorem smart_sort_refs (heap_b : List Scaffold) (refs : List Nat) :
    Gen.Imp.Assembly_smart_sort_scaffolds heap_b refs = .ok (ImpSmartSort.refSorted heap_b refs) := by
  unfold Gen.Imp.Assembly_smart_sort_scaffolds
  rw [ImpNatKey.bind_ok]
  apply ImpSmartSort.sort_refs
  intro r
  simp [source_natural_key_eq, bind, Except.bind]

/-- **T1c tie** `smart_sort_scaffolds()` of the source = the model's `smartSort`, on the Scaffold objects the references point at. -/
theorem smart_sort_is_source (heap_b : List Scaffold) (refs : List Nat) :
    (Gen.Imp.Assembly_smart_sort_scaffolds heap_b refs).map (fun rs => rs.map (PyRt.bsGet heap_b))
      = smartSort (refs.map (PyRt.bsGet heap_b)) := by
  rw [smart_sort_refs, smartSort_total, ← ImpSmartSort.refSorted_deref]
  rfl

/-- the list of references left behind is a permutation of the one that was there -/
theorem smart_sort_perm (heap_b : List Scaffold) (refs rs : List Nat)
    (h : Gen.Imp.Assembly_smart_sort_scaffolds heap_b refs = .ok rs) : rs.Perm refs := by
  rw [smart_sort_refs] at h; cases h
  exact ImpSmartSort.refSorted_perm heap_b refs

/-- stability on the references: those whose scaffolds share a `(rank, natural_key)` keep their order -/
theorem smart_sort_stable (heap_b : List Scaffold) (refs rs : List Nat)
    (h : Gen.Imp.Assembly_smart_sort_scaffolds heap_b refs = .ok rs) (k : Int × NatKey) :
    rs.filter (fun r => ((PyRt.bsGet heap_b r).rank, keyOf (PyRt.bsGet heap_b r).name) = k)
      = refs.filter (fun r => ((PyRt.bsGet heap_b r).rank, keyOf (PyRt.bsGet heap_b r).name) = k) := by
  rw [smart_sort_refs] at h; cases h
  exact ImpSmartSort.refSorted_stable heap_b refs k

/-- an arena for the examples: SUPER_02 and SUPER_2 have the same key; rank goes first -/
def sortHeap : List Scaffold := [
  { name := "SUPER_10".toList, rank := 1 }, { name := "SUPER_2".toList, rank := 1 },
  { name := "SUPER_2_unloc_1".toList, rank := 2 }, { name := "SUPER_02".toList, rank := 1 },
  { name := "scaffold_7".toList, rank := 3 }, { name := "chrIV".toList, rank := 1 }]

example : Gen.Imp.Assembly_smart_sort_scaffolds sortHeap [4, 0, 2, 3, 1, 5] = .ok [3, 1, 0, 5, 2, 4] := by decide +kernel
/-- equal keys keep their input order (SUPER_2 = ref 1 now comes before SUPER_02 = ref 3) -/
example : Gen.Imp.Assembly_smart_sort_scaffolds sortHeap [4, 0, 2, 1, 3, 5] = .ok [1, 3, 0, 5, 2, 4] := by decide +kernel
/-- a reference outside the arena reads the default scaffold (empty name, rank 0) on both sides -/
example : Gen.Imp.Assembly_smart_sort_scaffolds sortHeap [4, 0, 9] = .ok [9, 0, 4] := by decide +kernel
example : smartSort ([4, 0, 2, 3, 1, 5].map (PyRt.bsGet sortHeap)) = .ok ([3, 1, 0, 5, 2, 4].map (PyRt.bsGet sortHeap)) := by
  decide +kernel

/-! ## 4  the source's sort never raises -/

theorem smart_sort_total (heap_b : List Scaffold) (refs : List Nat) :
    ∃ rs, Gen.Imp.Assembly_smart_sort_scaffolds heap_b refs = .ok rs :=
  ⟨_, smart_sort_refs heap_b refs⟩

example : ∃ rs, Gen.Imp.Assembly_smart_sort_scaffolds sortHeap [5, 4, 3, 2, 1, 0] = .ok rs := ⟨[3, 1, 0, 5, 2, 4], by decide +kernel⟩

end AgpTpf.C20
