/-
  C01 / C07 / C08 / C09 — T1c: the model's `addMissing` (Model/Remap.lean) IS the source's
  `BuildAssembly.add_missing_scaffolds_from_input` (assembly/build_assembly.py) as translated by `harness/translate_imp.py` into
  `Gen.Imp.BuildAssembly_add_missing_scaffolds_from_input`.  Loop lemmas: Proofs/ImpMissing.lean.

  The left-over Scaffold objects the source creates live in an arena (`List PyRt.Leftover`: the object and its `input_predecessor`
  attribute); `loModel x = (x.1, x.2.bind predOfRows)` reads an object as the pair the model appends to `Build.extra`,
  `loSrc e = (e.1, e.2.map predToRows)` is the way back (`predOfRows` / `predToRows` of Proofs/ImpLeftover.lean).
  The namer is the Python object `PyRt.SrcNamer`, read as the model's `Namer` by `absNamer` (Proofs/ImpMissing.lean; the convention of
  tasks/W9_T1c_namer.md).  The tie of `ScaffoldNamer.make_scaffold_name` to `makeScaffoldName` is a HYPOTHESIS here (`hmk`, `hwf`:
  it is the subject of Properties/C09Imp.lean, `make_scaffold_name_refines`, written separately); only the call the method makes
  (`fragment_tags=None`) is asked.
-/
import AgpTpf.Gen.Imp
import AgpTpf.Proofs.ImpMissing
import AgpTpf.Properties.C07ImpLeftover
namespace AgpTpf.C01
open AgpTpf ImpLeftover ImpMissing

/-- `add_missing_scaffolds_from_input` refines `addMissing`: for a build state `b` with a default gap `g`, a well-formed namer object `s`
    that reads as `b.namer`, and a `found` dictionary with the keys of `b.found`:
    * when the source returns `(heap, added, s')`: every created object was added, in order (`added = range heap.length`); `s'` is
      well-formed; every object's `input_predecessor` is a `(Fragment, gaps)` pair (`loSrc (loModel x) = x`, so `loModel` loses
      nothing); and the model returns `b` with the namer `absNamer s'` and the objects appended to `extra` — nothing else changed;
    * when the source raises `e`, so does the model.
    (The source either returns or raises, so this determines `addMissing input b` in every case: "exactly when".) -/
theorem add_missing_refines (input : List Scaffold) (b : Build) (g : Gap) (hg : b.joinGap = some g)
    (s : PyRt.SrcNamer) (hs : WFNamer s) (habs : absNamer s = b.namer)
    (found : List (Key × Nat)) (hkeys : ∀ k, (dGet? found k).isSome = dHas b.found k)
    (hmk : ∀ s sc, WFNamer s → (Gen.Imp.ScaffoldNamer_make_scaffold_name s sc none).map absNamer
              = makeScaffoldName (absNamer s) sc.name sc.rows sc.fragmentTags)
    (hwf : ∀ s sc s', WFNamer s → Gen.Imp.ScaffoldNamer_make_scaffold_name s sc none = .ok s' → WFNamer s') :
    (∀ heap added s', Gen.Imp.BuildAssembly_add_missing_scaffolds_from_input s input g found = .ok (heap, added, s') →
        added = List.range heap.length ∧ WFNamer s' ∧ (∀ x ∈ heap, loSrc (loModel x) = x) ∧
        addMissing input b = .ok { b with namer := absNamer s', extra := b.extra ++ heap.map loModel }) ∧
    (∀ e, Gen.Imp.BuildAssembly_add_missing_scaffolds_from_input s input g found = .error e →
        addMissing input b = .error e) := by
  unfold Gen.Imp.BuildAssembly_add_missing_scaffolds_from_input
  dsimp only
  refine whole_refines b s hs habs _ ?_ _ ?_ input
  · -- one pass of `for scffld in input_asm.scaffolds`
    intro sc st b' hsim
    obtain ⟨heap, s1, added, rfl, hsim⟩ := hsim
    refine outer_step b g hg found hkeys (fun s sc => Gen.Imp.ScaffoldNamer_make_scaffold_name s sc none) hmk hwf
      sc heap s1 added b' hsim _ ?_ ?_ ?_ _ ?_ ?_
    · -- the contig was placed
      intro i f st h
      simp only [h, Bool.not_true, Bool.false_eq_true, if_false, ImpMissing.ok_bind]
    · -- the first left-over contig of the scaffold
      intro i f h
      simp only [h, Bool.not_false, if_true, C07.input_predecessor_is_source, ImpMissing.ok_bind, loSet_snoc, loSetPred_snoc]
      rfl
    · -- a further one
      intro l i f x h
      simp only [h, Bool.not_false, if_true, loSet_snoc]
      unfold srcSep
      by_cases h1 : l ≠ i - 1
      · by_cases h2 : (PyRt.slice sc.rows (some (l + 1)) (some i)).all Row.isGap = true
        · simp only [h1, h2, decide_eq_true_eq, ne_eq, not_false_eq_true, if_true]
          rw [forIn_addRows _ (fun _ _ _ => rfl)]
          simp only [ImpMissing.ok_bind, loSet_snoc, List.append_assoc]
        · simp only [h1, h2, decide_eq_true_eq, ne_eq, not_false_eq_true, if_true, if_false, Bool.false_eq_true, ImpMissing.ok_bind, loSet_snoc, List.append_assoc]
      · simp only [h1, decide_eq_true_eq, if_false, ImpMissing.ok_bind, loSet_snoc, List.append_nil]
    · intro la h; rfl
    · intro la r h
      dsimp only
      unfold finish
      congr 1
      funext s'
      by_cases hc : (s'.target_tags && !(sc.fragmentTags.contains "Target".toList)) = true <;>
        simp only [hc, if_true, if_false, Bool.false_eq_true, ImpMissing.ok_bind]
  · intro h s' a; rfl

/-- the same from the namer tie in the form of tasks/W9_T1c_addmissing.md (every `fragment_tags` argument, `tagsOf`): this is what
    `C09.make_scaffold_name_refines` is to discharge -/
theorem add_missing_refines_of_namer_tie (input : List Scaffold) (b : Build) (g : Gap) (hg : b.joinGap = some g)
    (s : PyRt.SrcNamer) (hs : WFNamer s) (habs : absNamer s = b.namer)
    (found : List (Key × Nat)) (hkeys : ∀ k, (dGet? found k).isSome = dHas b.found k)
    (hmk : ∀ s sc ft, WFNamer s → (Gen.Imp.ScaffoldNamer_make_scaffold_name s sc ft).map absNamer
              = makeScaffoldName (absNamer s) sc.name sc.rows (tagsOf sc ft))
    (hwf : ∀ s sc ft s', WFNamer s → Gen.Imp.ScaffoldNamer_make_scaffold_name s sc ft = .ok s' → WFNamer s') :
    (∀ heap added s', Gen.Imp.BuildAssembly_add_missing_scaffolds_from_input s input g found = .ok (heap, added, s') →
        added = List.range heap.length ∧ WFNamer s' ∧ (∀ x ∈ heap, loSrc (loModel x) = x) ∧
        addMissing input b = .ok { b with namer := absNamer s', extra := b.extra ++ heap.map loModel }) ∧
    (∀ e, Gen.Imp.BuildAssembly_add_missing_scaffolds_from_input s input g found = .error e →
        addMissing input b = .error e) :=
  add_missing_refines input b g hg s hs habs found hkeys (fun s sc h => hmk s sc none h) (fun s sc s' h => hwf s sc none s' h)

/-- read from the model's side ("exactly when"): whatever `addMissing` does, the source did the same -/
theorem add_missing_refines_conv (input : List Scaffold) (b : Build) (g : Gap) (hg : b.joinGap = some g)
    (s : PyRt.SrcNamer) (hs : WFNamer s) (habs : absNamer s = b.namer)
    (found : List (Key × Nat)) (hkeys : ∀ k, (dGet? found k).isSome = dHas b.found k)
    (hmk : ∀ s sc, WFNamer s → (Gen.Imp.ScaffoldNamer_make_scaffold_name s sc none).map absNamer
              = makeScaffoldName (absNamer s) sc.name sc.rows sc.fragmentTags)
    (hwf : ∀ s sc s', WFNamer s → Gen.Imp.ScaffoldNamer_make_scaffold_name s sc none = .ok s' → WFNamer s') :
    (∀ b', addMissing input b = .ok b' →
        ∃ heap s', Gen.Imp.BuildAssembly_add_missing_scaffolds_from_input s input g found = .ok (heap, List.range heap.length, s') ∧
          WFNamer s' ∧ heap = (b'.extra.drop b.extra.length).map loSrc ∧
          b' = { b with namer := absNamer s', extra := b.extra ++ heap.map loModel }) ∧
    (∀ e, addMissing input b = .error e →
        Gen.Imp.BuildAssembly_add_missing_scaffolds_from_input s input g found = .error e) := by
  obtain ⟨h1, h2⟩ := add_missing_refines input b g hg s hs habs found hkeys hmk hwf
  cases hsrc : Gen.Imp.BuildAssembly_add_missing_scaffolds_from_input s input g found with
  | error e =>
    have := h2 e hsrc
    refine ⟨fun b' hb => ?_, fun e' he => ?_⟩
    · rw [this] at hb; cases hb
    · rw [this] at he; cases he; rfl
  | ok r =>
    obtain ⟨heap, added, s'⟩ := r
    obtain ⟨ha, hw, hl, hm⟩ := h1 heap added s' hsrc
    refine ⟨fun b' hb => ?_, fun e' he => ?_⟩
    · rw [hm] at hb
      cases hb
      refine ⟨heap, s', by rw [ha], hw, ?_, rfl⟩
      simp only [List.drop_left, List.map_map]
      conv => lhs; rw [← List.map_id heap]
      exact List.map_congr_left (fun x hx => (hl x hx).symm)
    · rw [hm] at he; cases he

/-! the generated function runs.  Input scaffold `s1 = a g1 b g2 c` of which only `b` was placed: the left-over is `a`, the default
    gap, `c` (a contig placed elsewhere lay between them); it has no `input_predecessor` (nothing in front of `a`); `c` carries the
    tag `Target`, so the namer now knows targets are in use, and this scaffold is not a contaminant; its haplotype `h1` is read off the
    name of its first contig.  Then `s3 = d` (untagged, nothing placed): left over whole, and tagged `Contaminant`. -/
def exA : Fragment := { oid := 1, name := "h1_s_1".toList, start := 1, stop := 10, strand := 1 }
def exB : Fragment := { oid := 2, name := ['b'], start := 1, stop := 20, strand := -1 }
def exC : Fragment := { oid := 3, name := ['c'], start := 5, stop := 30, strand := 1, tags := ["Target".toList] }
def exD : Fragment := { oid := 4, name := ['d'], start := 1, stop := 8, strand := 1 }
def exG1 : Gap := { length := 7, gapType := ['u'] }
def exG2 : Gap := { length := 9, gapType := ['v'] }
def exDflt : Gap := { length := 200, gapType := "scaffold".toList }
def exNamer : PyRt.SrcNamer := { autosome_prefix := "SUPER_".toList }
/-- the model's build state / the source's `found_fragments` dictionary in which exactly the contigs `fnd` are registered -/
def exBuild (fnd : List Fragment) : Build :=
  { namer := absNamer exNamer, nextOid := 10, joinGap := some exDflt, err := 3,
    found := fnd.map (fun f => (f.keyTuple, { fragment := f, scaffolds := [0] })) }
def exFound (fnd : List Fragment) : List (Key × Nat) := fnd.map (fun f => (f.keyTuple, 0))
def exS1 : Scaffold := { name := ['s','1'], rows := [.frag exA, .gap exG1, .frag exB, .gap exG2, .frag exC] }
def exS2 : Scaffold := { name := ['s','2'], rows := [.frag exB, .gap exG1, .frag exA, .gap exG1, .gap exG2, .frag exC] }
def exS3 : Scaffold := { name := ['s','3'], rows := [.frag exD] }
def exNamer' : PyRt.SrcNamer :=
  { exNamer with current_scaffold_name := some "h1_s_1".toList, current_rank := some 3, current_haplotype := some ['h','1'],
                 target_tags := true, haplotype_lc_dict := [(['h','1'], ['h','1'])] }

example : Gen.Imp.BuildAssembly_add_missing_scaffolds_from_input exNamer [exS1, exS3] exDflt (exFound [exB])
    = .ok ([({ name := ['s','1'], rows := [.frag exA, .gap exDflt, .frag exC], rank := 3, haplotype := some ['h','1'] }, none),
            ({ name := ['s','3'], rows := [.frag exD], rank := 3, tag := some "Contaminant".toList }, none)], [0, 1],
           { exNamer' with current_scaffold_name := some ['d'], current_haplotype := none }) := by rfl

/-- … and the model on the same input, evaluated independently: the same two pairs appended to `extra`, the same namer -/
example : (addMissing [exS1, exS3] (exBuild [exB])).map (fun b' => (b'.extra, b'.namer))
    = .ok ([({ name := ['s','1'], rows := [.frag exA, .gap exDflt, .frag exC], rank := 3, haplotype := some ['h','1'] }, none),
            ({ name := ['s','3'], rows := [.frag exD], rank := 3, tag := some "Contaminant".toList }, none)],
           absNamer { exNamer' with current_scaffold_name := some ['d'], current_haplotype := none }) := by rfl

/-- `s2 = b g1 a g1 g2 c`, only `b` placed: only gaps lie between the left-over contigs `a` and `c` — both are kept; the object remembers
    its predecessor in the input, `b` and the gap `g1` behind it -/
example : Gen.Imp.BuildAssembly_add_missing_scaffolds_from_input exNamer [exS2] exDflt (exFound [exB])
    = .ok ([({ name := ['s','2'], rows := [.frag exA, .gap exG1, .gap exG2, .frag exC], rank := 3, haplotype := some ['h','1'] },
             some (.frag exB, [.gap exG1]))], [0], exNamer') := by rfl
example : (addMissing [exS2] (exBuild [exB])).map (fun b' => (b'.extra, b'.namer))
    = .ok ([({ name := ['s','2'], rows := [.frag exA, .gap exG1, .gap exG2, .frag exC], rank := 3, haplotype := some ['h','1'] },
             some (exB, [exG1]))], absNamer exNamer') := by rfl

/-- everything placed: no object, nothing changes -/
example : Gen.Imp.BuildAssembly_add_missing_scaffolds_from_input exNamer [exS1] exDflt (exFound [exA, exB, exC])
    = .ok ([], [], exNamer) := by rfl

/-- two left-over contigs with different haplotype tags: `make_scaffold_name` raises TaggingError, on both sides -/
def exT1 : Fragment := { oid := 5, name := ['t'], start := 1, stop := 5, strand := 1, tags := ["hapA".toList] }
def exT2 : Fragment := { oid := 6, name := ['t'], start := 6, stop := 9, strand := 1, tags := ["hapB".toList] }
def exS4 : Scaffold := { name := ['s','4'], rows := [.frag exT1, .gap exG1, .frag exT2] }
example : Gen.Imp.BuildAssembly_add_missing_scaffolds_from_input exNamer [exS3, exS4] exDflt (exFound [exB]) = .error .tagging := by rfl
example : (addMissing [exS3, exS4] (exBuild [exB])).map (fun b' => b'.extra) = .error .tagging := by rfl

/-- the hypotheses of `add_missing_refines` are met by the example state (the two about `make_scaffold_name` are the subject of
    Properties/C09Imp.lean; here: the instance the first example uses) -/
example : (exBuild [exB]).joinGap = some exDflt ∧ WFNamer exNamer ∧ absNamer exNamer = (exBuild [exB]).namer ∧
    (∀ k, (dGet? (exFound [exB]) k).isSome = dHas (exBuild [exB]).found k) := by
  refine ⟨rfl, by simp [WFNamer, exNamer], rfl, fun k => ?_⟩
  by_cases h : exB.keyTuple = k <;> simp [exFound, exBuild, dGet?, dHas, h]
example :
    (Gen.Imp.ScaffoldNamer_make_scaffold_name exNamer { name := ['s','1'], rows := [.frag exA, .gap exDflt, .frag exC], rank := 3 } none).map
        absNamer
      = makeScaffoldName (absNamer exNamer) ['s','1'] [.frag exA, .gap exDflt, .frag exC]
          ({ name := ['s','1'], rows := [.frag exA, .gap exDflt, .frag exC], rank := 3 } : Scaffold).fragmentTags := by rfl

end AgpTpf.C01
