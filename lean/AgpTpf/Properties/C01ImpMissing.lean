/-
  C01 / C07 / C08 / C09 — T1c: the model's `addMissing` (Model/Remap.lean) IS the source's
  `BuildAssembly.add_missing_scaffolds_from_input` (assembly/build_assembly.py) as translated by `harness/translate_imp.py` into
  `Gen.Imp.BuildAssembly_add_missing_scaffolds_from_input`.  Loop lemmas: Proofs/ImpMissing.lean.

  The left-over Scaffold objects the source creates live in an arena (`List PyRt.Leftover`: the object and its `input_predecessor`
  attribute); `loModel x = (x.1, x.2.bind predOfRows)` reads an object as the pair the model appends to `Build.extra`,
  `loSrc e = (e.1, e.2.map predToRows)` is the way back (`predOfRows` / `predToRows` of Proofs/ImpLeftover.lean).
  The namer is the Python object `PyRt.SrcNamer`, read as the model's `Namer` by `absNamer` (Proofs/ImpMissing.lean; the convention of
  tasks/W9_T1c_namer.md).  The tie of `ScaffoldNamer.make_scaffold_name` to `makeScaffoldName` is a HYPOTHESIS here (`hmk`, `hwf`:
  it is the subject of Properties/C09Imp.lean, `make_scaffold_name_refines`, written separately); only the call the method makes
  (`fragment_tags=None`) is asked.
-/
import AgpTpf.Gen.Imp
import AgpTpf.Proofs.ImpMissing
import AgpTpf.Properties.C07ImpLeftover
namespace AgpTpf.C01
open AgpTpf ImpLeftover ImpMissing

/-- `add_missing_scaffolds_from_input` refines `addMissing`: for a build state `b` with a default gap `g`, a well-formed namer object `s`
    that reads as `b.namer`, and a `found` dictionary with the keys of `b.found`:
    * when the source returns `(heap, added, s')`: every created object was added, in order (`added = range heap.length`); `s'` is
      well-formed; every object's `input_predecessor` is a `(Fragment, gaps)` pair (`loSrc (loModel x) = x`, so `loModel` loses
      nothing); and the model returns `b` with the namer `absNamer s'` and the objects appended to `extra` — nothing else changed;
    * when the source raises `e`, so does the model.
    (The source either returns or raises, so this determines `addMissing input b` in every case: "exactly when".) -/
theorem add_missing_refines (input : List Scaffold) (b : Build) (g : Gap) (hg : b.joinGap = some g)
    (s : PyRt.SrcNamer) (hs : WFNamer s) (habs : absNamer s = b.namer)
    (found : List (Key × Nat)) (hkeys : ∀ k, (dGet? found k).isSome = dHas b.found k)
    (hmk : ∀ s sc, WFNamer s → (Gen.Imp.ScaffoldNamer_make_scaffold_name s sc none).map absNamer
              = makeScaffoldName (absNamer s) sc.name sc.rows sc.fragmentTags)
    (hwf : ∀ s sc s', WFNamer s → Gen.Imp.ScaffoldNamer_make_scaffold_name s sc none = .ok s' → WFNamer s') :
    (∀ heap added s', Gen.Imp.BuildAssembly_add_missing_scaffolds_from_input s input g found = .ok (heap, added, s') →
        added = List.range heap.length ∧ WFNamer s' ∧ (∀ x ∈ heap, loSrc (loModel x) = x) ∧
        addMissing input b = .ok { b with namer := absNamer s', extra := b.extra ++ heap.map loModel }) ∧
    (∀ e, Gen.Imp.BuildAssembly_add_missing_scaffolds_from_input s input g found = .error e →
        addMissing input b = .error e) := by
  unfold Gen.Imp.BuildAssembly_add_missing_scaffolds_from_input
  dsimp only
  refine whole_refines b s hs habs _ ?_ _ ?_ input
  · -- one pass of `for scffld in input_asm.scaffolds`
    intro sc st b' hsim
    obtain ⟨heap, s1, added⟩ := st
    refine outer_step b g hg found hkeys (fun s sc => Gen.Imp.ScaffoldNamer_make_scaffold_name s sc none) hmk hwf
      sc heap s1 added b' hsim _ ?_ ?_ ?_ _ ?_ ?_
    · -- the contig was placed
      intro i f st h
      simp only [h, Bool.not_true, Bool.false_eq_true, if_false, ImpMissing.ok_bind]
    · -- the first left-over contig of the scaffold
      intro i f h
      simp only [h, Bool.not_false, if_true, C07.input_predecessor_is_source, ImpMissing.ok_bind, loSet_snoc, loSetPred_snoc]
      rfl
    · -- a further one
      intro l i f x h
      simp only [h, Bool.not_false, if_true, loSet_snoc]
      unfold srcSep
      by_cases h1 : l ≠ i - 1
      · by_cases h2 : (PyRt.slice sc.rows (some (l + 1)) (some i)).all Row.isGap = true
        · simp only [h1, h2, decide_true, if_true]
          rw [forIn_addRows _ (fun _ _ _ => rfl)]
          simp only [ImpMissing.ok_bind, loSet_snoc, List.append_assoc]
        · simp only [h1, h2, decide_true, if_true, if_false, Bool.false_eq_true, ImpMissing.ok_bind, loSet_snoc, List.append_assoc]
      · simp only [h1, decide_false, if_false, Bool.false_eq_true, ImpMissing.ok_bind, loSet_snoc, List.append_nil]
    · intro la h; rfl
    · intro la r h
      unfold finish
      congr 1
      funext s'
      by_cases hc : (s'.target_tags && !(sc.fragmentTags.contains "Target".toList)) = true <;>
        simp only [hc, if_true, if_false, Bool.false_eq_true, ImpMissing.ok_bind]
  · intro h s' a; rfl

end AgpTpf.C01
