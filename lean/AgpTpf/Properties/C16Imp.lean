/-
  C16 over the SOURCE (T1c): `get_output_filehandle`, translated whole from the current scripts/pretext_to_asm.py
  (`Gen.Imp.get_output_filehandle_imp`; `path.exists()` and `path.open(mode)` are oracles of the kernel, `sys.exit(1)` is `Err.other`):
  the file is opened with mode "w…" when clobbering and "x…" otherwise — and a FileExistsError from the exclusive open is turned into
  exit status 1, every other failure is passed on, nothing is opened twice.
-/
import AgpTpf.Properties.C16
import AgpTpf.Gen.Imp
namespace AgpTpf.C16
open AgpTpf AgpTpf.Outputs

/-- `open(path, mode)` on the model's file system: an exclusive mode ("x…") on an existing path raises FileExistsError -/
def fsOpen (fs : FS) (p : Str) (mode : Str) : R Str :=
  if mode.head? = some 'x' ∧ dHas fs p then .error .fileExists else .ok p

/-- the source opens with exactly the mode the model's `openMode` prescribes, and leaves with status 1 exactly when the model's
    `openOutput` fails (the path exists and we are not clobbering) -/
theorem get_output_filehandle_is_source (ex : Str → Bool) (fs : FS) (p : Str) (clobber : Bool) (mode : Str) :
    Gen.Imp.get_output_filehandle_imp ex (fsOpen fs) p clobber mode
      = match openOutput (openMode clobber) fs p with
        | .ok _ => .ok p
        | .error _ => .error .other := by
  unfold Gen.Imp.get_output_filehandle_imp fsOpen openOutput openMode
  cases clobber <;> simp [bind, Except.bind]
  by_cases h : dHas fs p = true <;> simp [h]

/-- whatever the opener answers, the source asks it ONCE, with "w"+mode when clobbering and "x"+mode otherwise -/
theorem get_output_filehandle_mode (ex : Str → Bool) (op : Str → Str → R Str) (p : Str) (clobber : Bool) (mode : Str) :
    Gen.Imp.get_output_filehandle_imp ex op p clobber mode
      = match op p ((if clobber then "w".toList else "x".toList) ++ mode) with
        | .error .fileExists => .error .other
        | .error e => .error e
        | .ok h => .ok h := by
  unfold Gen.Imp.get_output_filehandle_imp
  cases clobber <;> simp [bind, Except.bind] <;>
    (generalize op p _ = r; cases r with
     | ok v => rfl
     | error e => cases e <;> rfl)

example : Gen.Imp.get_output_filehandle_imp (fun _ => true) (fsOpen [("a.fa".toList, .old)]) "a.fa".toList false [] = .error .other := by rfl
example : Gen.Imp.get_output_filehandle_imp (fun _ => true) (fsOpen [("a.fa".toList, .old)]) "a.fa".toList true [] = .ok "a.fa".toList := by rfl
example : Gen.Imp.get_output_filehandle_imp (fun _ => false) (fsOpen [("a.fa".toList, .old)]) "b.fa".toList false "b".toList = .ok "b.fa".toList := by rfl

end AgpTpf.C16
