/-
  C08 — An unedited Pretext map reproduces the input assembly.

  Python: `BuildAssembly.remap_to_input_assembly`, `find_assembly_overlaps`, `add_missing_scaffolds_from_input`,
  `assemblies_with_scaffolds_fused` (build_assembly.py), `ScaffoldNamer`, `OverhangResolver` (build_utils.py),
  `IndexedAssembly.find_overlaps`, `OverlapResult.trim_large_overhangs`, `AssemblyStats.make_stats`.
  Model: `Model/Remap.lean`, `Model/Lookup.lean`.  Helper lemmas: `Proofs/C08*.lean`.

  THE SETTING (`Unedited input pieces err`, defined in `Proofs/C08Remap.lean`).  `pieces : List Piece` lists the Pretext
  scaffolds; `Piece.ptx p` is the Pretext scaffold named `p.pname` consisting of the ONE row `Piece.bait p` = the
  forward, untagged fragment `[1, p.stop]` of the input scaffold `p.sc`.  Hypotheses:
    * input scaffold names pairwise different; contig keys `(name, start, end)` pairwise different over the whole input;
    * `0 ≤ err`;
    * per piece (`PieceOk`): `p.sc ∈ input`, `p.sc` well-formed (`WfRows`: rows not empty, first and last row contigs, no
      negative length, contigs ≥ 1 bp), the piece reaches into the last contig (`lastFragmentStart ≤ p.stop`), ends at
      most `err` short of the scaffold end (`length − p.stop ≤ err`; it may overshoot by ANY amount), and the scaffold
      name does not have the shape `<hap>_…_<digits>` (`hapPrefixOfName = none`);
    * every input scaffold is shown by at most one piece;
    * input scaffolds shown by NO piece (`AbsentOk`; "sub-texel scaffolds absent from the map") begin and end with a
      contig, carry no tags, and their first contig's name has no haplotype shape.  (Since fix 43566b8 — every gap row
      between a left-over contig and its neighbour is kept — consecutive gap rows are ALLOWED: the former hypothesis
      `NoDoubleGap` is gone, the theorems below are stronger than in the first round.)
  `pieceOk_of_texel` / `texel_rounding` show that the per-piece hypotheses hold for every texel size `t ≥ 1` and
  floor/ceil rounding of the texel count when the last contig is at least one texel long, with `err = t + 1`.

  PROVED, all at full strength for the stated setting with ARBITRARILY MANY scaffolds (no `_partial` theorem):
    N1  `lookup_whole`               the lookup returns the whole scaffold, span `1 .. length`
    N2  `no_trimming`, `lookup_not_trimmed`   `trim_large_overhangs` leaves it alone
    N3  `remap_to_input_unedited`    the build: one stored result per Pretext scaffold = the rows of its input scaffold,
                                     named like the input scaffold, rank 3, no tag / haplotype; `multi = []`, `cuts = 0`;
                                     `extra` = the absent input scaffolds, whole, no predecessor
        `remap_to_input_single`      the single-scaffold instance
    N4  `unedited_map_reproduces_input`   `remap = .ok ([⟨none, true, scs⟩], stats)`: ONE output assembly (primary, curated),
                                     `scs` = the input scaffolds compared on `(name, rows)` (a permutation, in
                                     `smart_sort_scaffolds` order, all rank 3 / untagged / no haplotype),
                                     `stats.cuts = stats.breaks = stats.joins = 0`
        `output_rows_are_input_rows` every output scaffold has literally the rows of the input scaffold of its name

  WHAT THE HYPOTHESES EXCLUDE (behaviour of the code, not gaps of the proof):
    * Known exception (F14): when the last contig lies wholly BEHIND the piece end (`p.stop < lastFragmentStart`) the contig
      is not found by the lookup and becomes a left-over.  For an unpainted map it is re-attached with its input gap
      (`gapBeforeLeftover` recognises the predecessor), for a painted map it is not (finding F14).  See the `example`
      at the end: unpainted, the output is still the input scaffold.
    * REPAIRED DEFECT: before fix 43566b8 an ABSENT input scaffold with two consecutive gap rows did not come back whole
      (`missingRows` kept only the gap row directly in front of a left-over contig; this file had the evaluated
      counterexample `absent_double_gap_loses_a_gap`).  Now it does: `absent_double_gap_keeps_gaps` (same concrete input),
      and in general by `unedited_map_reproduces_input`, whose hypotheses no longer exclude it.
    * Names of the shape `<hap>_…_<digits>` route a scaffold to the haplotype assembly `<hap>` — by design.
    * The model's `Stats` has no "haplotig removals" field; no result is labelled `Haplotig` here (all tags are `none`).

  PAINTED VARIANT — also PROVED at full strength (`painted_map_changes_only_names`): every piece carries the tag `Painted`
  (`Piece.pptx`), the Pretext scaffold names are pairwise different, non-empty and different from the absent scaffolds'
  names (`PaintedOk`), at least one piece.  Then `remap = .ok ([⟨none, true, scs⟩], stats)` with
  `scs = smartSorted (paintedNamed prefix input pieces)`: the `i`-th Pretext scaffold comes out with the rows of its
  input scaffold under the name `prefix ++ natToStr (sizeRank i)` (rank 1), where `sizeRank i` is its 1-based position
  in the stable order by non-increasing total contig length (`sizeOrder_perm`, `sizeOrder_sorted`, `fragLen_painted`);
  absent scaffolds keep name and rows (rank 3); `(scs.map rows).Perm (input.map rows)`;
  `stats.cuts = stats.breaks = stats.joins = 0`.  Only names and order change, not content.
-/
import AgpTpf.Proofs.C08PaintOut
namespace AgpTpf.C08
open AgpTpf
open AgpTpf.C20 (smartSorted keyOf)

/-! ## N1 — one scaffold, lookup -/

/-- **N1.** For a well-formed input scaffold and a forward bait `[1, E]` reaching into its last contig, the lookup
    returns the whole scaffold: all rows, span `1 .. length` (the scaffold lookup by name is done by the caller). -/
theorem lookup_whole (sc : Scaffold) (bait : Fragment) (hw : WfRows sc.rows) (hs : bait.start = 1)
    (hE : lastFragmentStart sc.rows ≤ bait.stop) :
    ∃ o, findOverlaps sc.rows bait = .ok (some o) ∧ o.rows = sc.rows ∧ o.start = 1 ∧ o.stop = sc.length ∧
      o.bait = bait :=
  ⟨_, findOverlaps_whole sc.rows bait hw hs hE, rfl, rfl, rfl, rfl⟩

/-! ## N2 — no trimming -/

/-- **N2.** `trim_large_overhangs` returns a result unchanged when both overhangs are at most the error length. -/
theorem no_trimming (o : OverlapResult) (err : Int) (hs : o.startOverhang ≤ err) (he : o.endOverhang ≤ err) :
    o.trimLargeOverhangs err = .ok o :=
  trimLargeOverhangs_id o err hs he

/-- N1 + N2: the looked-up whole scaffold has start overhang 0 and end overhang `length − E`, and is not trimmed when
    `length − E ≤ err` (Pretext rounds the end to a texel boundary: `|L − E| < 1 texel < err`). -/
theorem lookup_not_trimmed (sc : Scaffold) (bait : Fragment) (err : Int) (hw : WfRows sc.rows) (hs : bait.start = 1)
    (hE : lastFragmentStart sc.rows ≤ bait.stop) (herr : 0 ≤ err) (hclose : sc.length - bait.stop ≤ err) :
    ∃ o, findOverlaps sc.rows bait = .ok (some o) ∧ o.rows = sc.rows ∧
      o.startOverhang = 0 ∧ o.endOverhang = sc.length - bait.stop ∧ o.trimLargeOverhangs err = .ok o := by
  refine ⟨_, findOverlaps_whole sc.rows bait hw hs hE, rfl, ?_, rfl, ?_⟩
  · show bait.start - 1 = 0
    omega
  · apply trimLargeOverhangs_id
    · show bait.start - 1 ≤ err
      omega
    · exact hclose

/-! ## N3 — the build -/

/-- **N3.** `remap_to_input_assembly` on an unedited map (any number of scaffolds, any subset absent). -/
theorem remap_to_input_unedited (input : List Scaffold) (pieces : List Piece) (prefix_ : Str) (joinGap : Option Gap)
    (err : Int) (hu : Unedited input pieces err) :
    ∃ b, remapToInput input (pieces.map Piece.ptx) prefix_ joinGap err = .ok b ∧
      b.store = pieces.map Piece.res ∧
      b.extra = (absentOf input pieces).map (fun sc => (absentOut sc, none)) ∧
      b.multi = [] ∧ b.cuts = 0 ∧ b.joinGap = joinGap ∧ b.namer.autosomePrefix = prefix_ :=
  remapToInput_unedited input pieces prefix_ joinGap err hu

/-- what is stored for a piece, spelled out -/
theorem piece_res_fields (p : Piece) :
    p.res.added = true ∧ p.res.o.rows = p.sc.rows ∧ p.res.o.name = p.sc.name ∧ p.res.o.rank = 3 ∧
    p.res.o.tag = none ∧ p.res.o.haplotype = none ∧ p.res.o.start = 1 ∧ p.res.o.stop = p.sc.length ∧
    p.res.o.bait = p.bait ∧ p.res.o.originalName = some p.pname :=
  ⟨rfl, rfl, rfl, rfl, rfl, rfl, rfl, rfl, rfl, rfl⟩

/-- N3 for a SINGLE input scaffold shown by a single piece -/
theorem remap_to_input_single (p : Piece) (prefix_ : Str) (joinGap : Option Gap) (err : Int)
    (hu : Unedited [p.sc] [p] err) :
    ∃ b, remapToInput [p.sc] [p.ptx] prefix_ joinGap err = .ok b ∧
      b.store = [p.res] ∧ b.extra = [] ∧ b.multi = [] ∧ b.cuts = 0 := by
  obtain ⟨b, h, h1, h2, h3, h4, -⟩ := remapToInput_unedited [p.sc] [p] prefix_ joinGap err hu
  refine ⟨b, h, h1, ?_, h3, h4⟩
  rw [h2]
  have : absentOf [p.sc] [p] = [] := by simp [absentOf, isPresent]
  rw [this]; rfl

/-! ## N4 — the output -/

/-- **N4 / C08.** An unedited Pretext map reproduces the input assembly: exactly one output assembly — the primary one
    (`key = none`), curated — whose scaffolds are the input scaffolds compared on `(name, rows)` (same names, contigs,
    gaps, order and orientation inside every scaffold), listed in `smart_sort_scaffolds` order; all of rank 3 with no
    tag and no haplotype; the statistics report no cuts, breaks or joins.
    (`hstr`: strands ±1, so that junction sets exist — `make_stats` raises otherwise.) -/
theorem unedited_map_reproduces_input (input : List Scaffold) (pieces : List Piece) (prefix_ : Str)
    (joinGap : Option Gap) (err : Int) (hu : Unedited input pieces err) (hne : input ≠ [])
    (hstr : ∀ sc ∈ input, ∀ f ∈ sc.fragments, f.strand = 1 ∨ f.strand = -1) :
    ∃ scs stats, remap input (pieces.map Piece.ptx) prefix_ joinGap err =
        .ok ([{ key := none, curated := true, scaffolds := scs }], stats) ∧
      scs = smartSorted (outScaffolds input pieces) ∧
      (scs.map (fun s => (s.name, s.rows))).Perm (input.map (fun s => (s.name, s.rows))) ∧
      (∀ s ∈ scs, s.tag = none ∧ s.haplotype = none ∧ s.rank = 3) ∧
      scs.Pairwise (fun a b => keyLe (keyOf a.name) (keyOf b.name) = true) ∧
      stats.cuts = 0 ∧ stats.breaks = 0 ∧ stats.joins = 0 := by
  obtain ⟨b, hb, hstore, hextra, -, hcuts, -, -⟩ := remapToInput_unedited input pieces prefix_ joinGap err hu
  obtain ⟨st, hst, hc, hbk, hj⟩ := assembliesFused_unedited input pieces err hu hne hstr b hstore hextra
  have hperm : (smartSorted (outScaffolds input pieces)).Perm (outScaffolds input pieces) := C20.stableSort_perm _ _
  have hplain : ∀ s ∈ smartSorted (outScaffolds input pieces), s.tag = none ∧ s.haplotype = none ∧ s.rank = 3 := by
    intro s hs
    have := outScaffolds_plain input pieces s (hperm.subset hs)
    exact ⟨this.tag, this.hap, this.rank⟩
  refine ⟨smartSorted (outScaffolds input pieces), st, ?_, rfl, ?_, hplain, ?_, by rw [hc, hcuts], hbk, hj⟩
  · unfold remap
    simp only [hb, bind, Except.bind, hst]
  · exact (hperm.map _).trans (outScaffolds_perm input pieces err hu)
  · have hs := C20.stableSort_sorted (C20.totalPreorder_comap C20.smartLe_totalPreorder C20.smartKey)
      (outScaffolds input pieces)
    have hs' : (smartSorted (outScaffolds input pieces)).Pairwise
        (fun a b => smartLe (C20.smartKey a) (C20.smartKey b) = true) := hs
    have hmem : ∀ a, a ∈ smartSorted (outScaffolds input pieces) → a.rank = 3 := fun a ha => (hplain a ha).2.2
    refine List.Pairwise.imp_of_mem ?_ hs'
    intro a b ha hb hab
    simpa [smartLe, C20.smartKey, hmem a ha, hmem b hb] using hab

/-- order and orientation INSIDE every scaffold: each output scaffold has literally the rows of the input scaffold of
    the same name -/
theorem output_rows_are_input_rows (input : List Scaffold) (pieces : List Piece) (err : Int)
    (hu : Unedited input pieces err) (s : Scaffold) (hs : s ∈ smartSorted (outScaffolds input pieces)) :
    ∃ sc ∈ input, sc.name = s.name ∧ sc.rows = s.rows := by
  have hperm : (smartSorted (outScaffolds input pieces)).Perm (outScaffolds input pieces) := C20.stableSort_perm _ _
  have := (outScaffolds_mem input pieces err hu (s.name, s.rows)).1 (List.mem_map.2 ⟨s, hperm.subset hs, rfl⟩)
  obtain ⟨sc, hsc, e⟩ := List.mem_map.1 this
  simp only [Prod.mk.injEq] at e
  exact ⟨sc, hsc, e.1, e.2⟩

/-! ## the painted variant: only names (prefix + rank by size) and order change -/

/-- **C08, painted.** When every Pretext scaffold is painted, the single primary output assembly holds
    `paintedNamed prefix input pieces` in `smart_sort_scaffolds` order: the rows of every input scaffold unchanged, the
    presented scaffolds renamed `prefix ++ rank-by-size`, the absent ones as they were; no cuts, breaks or joins. -/
theorem painted_map_changes_only_names (input : List Scaffold) (pieces : List Piece) (prefix_ : Str)
    (joinGap : Option Gap) (err : Int) (hp : PaintedOk input pieces err) (hne : pieces ≠ [])
    (hstr : ∀ sc ∈ input, ∀ f ∈ sc.fragments, f.strand = 1 ∨ f.strand = -1) :
    ∃ scs stats, remap input (pieces.map Piece.pptx) prefix_ joinGap err =
        .ok ([{ key := none, curated := true, scaffolds := scs }], stats) ∧
      scs = smartSorted (paintedNamed prefix_ input pieces) ∧
      (scs.map (·.rows)).Perm (input.map (·.rows)) ∧
      stats.cuts = 0 ∧ stats.breaks = 0 ∧ stats.joins = 0 := by
  obtain ⟨b, hb, hstore, hextra, -, hcuts, -, hpre⟩ :=
    remapToInput_painted input pieces prefix_ joinGap err hp.unedited
  obtain ⟨st, hst, hc, hbk, hj⟩ := assembliesFused_painted input pieces err hp hne hstr b hstore hextra
  rw [hpre] at hst
  have hperm : (smartSorted (paintedNamed prefix_ input pieces)).Perm (paintedNamed prefix_ input pieces) :=
    C20.stableSort_perm _ _
  refine ⟨smartSorted (paintedNamed prefix_ input pieces), st, ?_, rfl, ?_, by rw [hc, hcuts], hbk, hj⟩
  · unfold remap
    simp only [hb, bind, Except.bind, hst]
  · exact (hperm.map _).trans (paintedNamed_rows_perm prefix_ input pieces err hp.unedited)

/-- what `paintedNamed` is: painted scaffold `i` = rows of its input scaffold, named `prefix ++ sizeRank i`, rank 1;
    then the absent input scaffolds unchanged (rank 3) -/
theorem paintedNamed_spec (prefix_ : Str) (input : List Scaffold) (pieces : List Piece) :
    paintedNamed prefix_ input pieces =
      pieces.mapIdx (fun i p =>
        ({ name := prefix_ ++ natToStr (sizeRank input pieces i), rows := p.sc.rows, rank := 1,
           originalName := some p.pname, originalTags := some [sPainted] } : Scaffold)) ++
      (absentOf input pieces).map (fun sc => ({ name := sc.name, rows := sc.rows, rank := 3 } : Scaffold)) := rfl

/-- `sizeRank i = 1 +` position of `i` in `sizeOrder`, which is a permutation of the piece indices … -/
theorem size_order_perm (input : List Scaffold) (pieces : List Piece) :
    (sizeOrder input pieces).Perm (List.range pieces.length) := sizeOrder_perm input pieces

/-- … sorted by non-increasing total contig length of the presented input scaffolds (ties keep Pretext order: the sort
    is the stable `sorted(..., reverse=True)`) -/
theorem size_order_sorted (input : List Scaffold) (pieces : List Piece) :
    (sizeOrder input pieces).Pairwise
      (fun i j => fragLen (paintedFused input pieces) i ≥ fragLen (paintedFused input pieces) j) ∧
    ∀ i (h : i < pieces.length), fragLen (paintedFused input pieces) i = pieces[i].sc.fragmentsLength :=
  ⟨sizeOrder_sorted input pieces, fragLen_painted input pieces⟩

/-! ## Pretext's rounding -/

/-- the per-piece hypotheses hold at ANY texel size `t ≥ 1`, for floor or ceil rounding of the scaffold's texel count,
    when the last contig is at least one texel long (error length `t + 1`) -/
theorem piece_ok_at_any_texel_size (input : List Scaffold) (sc : Scaffold) (pname : Str) (oid : Nat) (t k : Int)
    (hm : sc ∈ input) (hw : WfRows sc.rows) (hnh : hapPrefixOfName sc.name = none) (ht : 1 ≤ t)
    (hk : k = sc.length / t ∨ k = (sc.length + t - 1) / t)
    (hlast : ∀ r, sc.rows.getLast? = some r → t ≤ r.length) :
    PieceOk input (t + 1) { pname := pname, sc := sc, stop := t * k, oid := oid } :=
  pieceOk_of_texel input sc pname oid t k hm hw hnh ht hk hlast

/-! ## non-vacuity: a concrete map, hypotheses checked, `remap` evaluated independently of the theorems -/

private def g10 : Gap := { length := 10, gapType := "scaffold".toList }
private def jg : Gap := { length := 200, gapType := "scaffold".toList }
private def c1 : Fragment := { oid := 1, name := "ctg1".toList, start := 1, stop := 100, strand := 1 }
private def c2 : Fragment := { oid := 2, name := "ctg2".toList, start := 1, stop := 55, strand := -1 }
private def c3 : Fragment := { oid := 3, name := "ctg3".toList, start := 1, stop := 3, strand := 1 }
private def c4 : Fragment := { oid := 4, name := "ctg4".toList, start := 1, stop := 20, strand := 1 }
/-- 165 bp: two contigs (the second reversed) and a gap -/
private def s1 : Scaffold := { name := "scaffold_1".toList, rows := [.frag c1, .gap g10, .frag c2] }
private def g1 : Gap := { length := 1, gapType := "contig".toList }
private def c5 : Fragment := { oid := 5, name := "ctg5".toList, start := 1, stop := 2, strand := -1 }
/-- 7 bp: shorter than a texel, absent from the map; TWO consecutive gap rows between its contigs -/
private def s2 : Scaffold := { name := "scaffold_2".toList, rows := [.frag c3, .gap g1, .gap g1, .frag c5] }
/-- 20 bp -/
private def s3 : Scaffold := { name := "scaffold_10".toList, rows := [.frag c4] }
private def inp : List Scaffold := [s1, s2, s3]
/-- texel = 8 bp, `err = 9`: `scaffold_10` rounded UP to 3 texels (24), `scaffold_1` rounded DOWN to 20 texels (160);
    Pretext lists them in its own order -/
private def pcs : List Piece :=
  [{ pname := "Scaffold_1".toList, sc := s3, stop := 24, oid := 11 },
   { pname := "Scaffold_2".toList, sc := s1, stop := 160, oid := 12 }]

example : Unedited inp pcs 9 := unedited_of_check _ _ _ (by decide +kernel)
example : inp ≠ [] ∧ ∀ sc ∈ inp, ∀ f ∈ sc.fragments, f.strand = 1 ∨ f.strand = -1 := by decide
example : WfRows s1.rows ∧ lastFragmentStart s1.rows ≤ 160 ∧ s1.length - 160 ≤ 9 :=
  ⟨wfRows_of_check _ (by decide), by decide, by decide⟩
/-- the rounding lemma applies: 165 / 8 = 20 texels -/
example : PieceOk inp (8 + 1) { pname := "Scaffold_2".toList, sc := s1, stop := 8 * 20, oid := 12 } :=
  piece_ok_at_any_texel_size inp s1 _ _ 8 20 (by decide) (wfRows_of_check _ (by decide)) (by decide) (by decide)
    (Or.inl (by decide)) (by
      intro r hr
      have h : s1.rows.getLast? = some (.frag c2) := by decide
      rw [h] at hr; cases hr; decide)

/-- what the theorem predicts … -/
example : (smartSorted (outScaffolds inp pcs)).map (fun s => (s.name, s.rows)) =
    [(s1.name, s1.rows), (s2.name, s2.rows), (s3.name, s3.rows)] := by decide +kernel

/-- … and what the model computes (evaluated by the kernel, not through the theorems): one primary assembly holding
    exactly the predicted scaffold list — the three input scaffolds, `scaffold_2` before `scaffold_10` (natural order) —
    and zero cuts / breaks / joins -/
example : (remap inp (pcs.map Piece.ptx) "SUPER_".toList (some jg) 9).toOption.map (·.1) =
    some [{ key := none, curated := true, scaffolds := smartSorted (outScaffolds inp pcs) }] := by decide +kernel

example : (remap inp (pcs.map Piece.ptx) "SUPER_".toList (some jg) 9).toOption.map
      (fun r => r.1.map (fun a => a.scaffolds.map (fun s => (s.name, s.rows)))) =
    some [[(s1.name, s1.rows), (s2.name, s2.rows), (s3.name, s3.rows)]] := by decide +kernel

example : (remap inp (pcs.map Piece.ptx) "SUPER_".toList (some jg) 9).toOption.map
      (fun r => [r.2.cuts, r.2.breaks, r.2.joins]) = some [0, 0, 0] := by decide +kernel

/-- the single-scaffold, two-contig instance (end rounded UP to 168) -/
private def p1 : Piece := { pname := "Scaffold_1".toList, sc := s1, stop := 168, oid := 12 }
example : Unedited [p1.sc] [p1] 9 := unedited_of_check _ _ _ (by decide +kernel)
example : (remapToInput [s1] [p1.ptx] [] (some jg) 9).toOption.map (fun b => b.store) = some [p1.res] := by
  decide +kernel
example : (remapToInput [s1] [p1.ptx] [] (some jg) 9).toOption.map (fun b => (b.multi, b.cuts)) = some ([], 0) := by
  decide +kernel
example : (remapToInput [s1] [p1.ptx] [] (some jg) 9).toOption.map (fun b => b.extra.length) = some 0 := by
  decide +kernel

/-! ## outside the hypotheses (evaluated) -/

/-- Known exception: the piece ends BEFORE the last contig starts (here at 105 < 111).  The last contig is a left-over;
    for this unpainted map it is re-attached with its input gap, so the output still equals the input scaffold. -/
example : (remap [s1] [({ pname := "Scaffold_1".toList, sc := s1, stop := 105 } : Piece).ptx] [] (some jg) 9).toOption.map
      (fun r => r.1.map (fun a => a.scaffolds.map (fun s => (s.name, s.rows)))) =
    some [[(s1.name, s1.rows)]] := by decide +kernel

/-- … whereas for the PAINTED map the left-over contig is not re-attached (finding F14): two scaffolds come out
    (and one break is counted). -/
example : (remap [s1]
      [{ name := "Scaffold_1".toList,
         rows := [.frag { name := s1.name, start := 1, stop := 105, strand := 1, tags := [sPainted] }] }]
      "SUPER_".toList (some jg) 9).toOption.map
      (fun r => r.1.map (fun a => a.scaffolds.map (fun s => (s.name, s.rows)))) =
    some [[("SUPER_1".toList, [.frag c1]), ("scaffold_1".toList, [.frag c2])]] := by decide +kernel

/-- Documents the repaired defect (fix 43566b8).  The SAME concrete input on which the model (and the code) used to
    lose the first of two consecutive gap rows of an absent scaffold — the former theorem `absent_double_gap_loses_a_gap`
    had `[c3, gap 200, c4]` on the right — now comes back whole. -/
theorem absent_double_gap_keeps_gaps :
    (remap [{ name := "tiny".toList, rows := [.frag c3, .gap g10, .gap jg, .frag c4] }] [] [] (some jg) 9).toOption.map
      (fun r => r.1.map (fun a => a.scaffolds.map (fun s => (s.name, s.rows)))) =
    some [[("tiny".toList, [.frag c3, .gap g10, .gap jg, .frag c4])]] := by decide +kernel

/-- the same input is now inside the hypotheses of the general theorem -/
example : Unedited [{ name := "tiny".toList, rows := [.frag c3, .gap g10, .gap jg, .frag c4] }] [] 9 :=
  unedited_of_check _ _ _ (by decide +kernel)

/-- Painted variant: hypotheses satisfiable, prediction and independent evaluation agree — `scaffold_1` (155 bp of
    contigs) becomes `SUPER_1`, `scaffold_10` (20 bp) `SUPER_2`, the absent `scaffold_2` keeps its name; rows unchanged. -/
example : PaintedOk inp pcs 9 ∧ pcs ≠ [] := ⟨paintedOk_of_check _ _ _ (by decide +kernel), by decide⟩

example : (smartSorted (paintedNamed "SUPER_".toList inp pcs)).map (fun s => (s.name, s.rows)) =
    [("SUPER_1".toList, s1.rows), ("SUPER_2".toList, s3.rows), (s2.name, s2.rows)] := by decide +kernel

example : (remap inp (pcs.map Piece.pptx) "SUPER_".toList (some jg) 9).toOption.map (·.1) =
    some [{ key := none, curated := true, scaffolds := smartSorted (paintedNamed "SUPER_".toList inp pcs) }] := by
  decide +kernel

example : (remap inp (pcs.map Piece.pptx) "SUPER_".toList (some jg) 9).toOption.map
      (fun r => [r.2.cuts, r.2.breaks, r.2.joins]) = some [0, 0, 0] := by decide +kernel

end AgpTpf.C08
