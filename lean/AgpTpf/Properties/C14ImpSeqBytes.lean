/-
  T1c / C14 — `FastaIndex.sequence_bytes` as translated from the Python source (`Gen/Imp3.lean`, over `PyRt.BinFile` = bytes + cursor
  with `seek` / `seek(…, 1)` / `read`, checked `//` and `%`) against the model's `sequenceBytes` (`Model/Fasta.lean`, absolute positions).

  RESULT (after the model repair W12).  The tie holds for ALL `info`, `start`, `stop`, with NO hypothesis.
  History: the source raises OSError at EVERY `fh.seek(…)` with a negative target, including the relative seeks
  `fh.seek(line_end_bytes, 1)` INSIDE the whole-lines loop; the model used to check `pos0 < 0` and `pos1 < 0` only (its `readWholeLines`
  let the position go negative and kept reading from byte 0), so the tie was false on
      file = b"AC", info = FastaInfo(length 8, file_offset 3, residues_per_line 4, max_line_length 1), start = 1, end = 8
      source: OSError (`Err.other`, confirmed against /repo/src with a real file: `OSError [Errno 22]`);  old model: `.ok` with data b"AC".
  (It needs `line_end_bytes = max_line_length - residues_per_line < 0` AND a short read at the end of the file; no index the indexer
  writes has `residues_per_line > max_line_length`.)  `sequenceBytes` now runs the loop through `readWholeLinesChk`, which raises there
  (`sequence_bytes_loop_seek_oserror`: on that input source AND model give `.error .other`); for `rpl ≤ mll` nothing changed
  (`readWholeLinesChk_nonneg`, `Proofs/SeekChk.lean`).  Proved:
   * `sequence_bytes_is_source` — NO hypothesis: same bytes, same exception class (`.zeroDiv` for `rpl = 0` first, `.other` for a
     negative target of the absolute seek, of the relative seek after the first line, of a relative seek inside the loop);
   * `sequence_bytes_source_full` / `sequence_bytes_handle` — NO hypothesis: where the file handle and the buffer's cursor are left;
   * `sequence_bytes_loop_seek` — where a relative seek inside the loop has a negative target (`loopSeekNeg`) source and model raise
     the same exception (this replaces `sequence_bytes_source_exact`, which said that the source was the old model plus that check;
     `sequence_bytes_is_source_partial`, the tie under `rpl ≤ mll`, is subsumed by `sequence_bytes_is_source`);
   * the handle's initial position never matters (every statement is for an arbitrary `pos`; the first operation is an absolute seek).
  Helper lemmas: `Proofs/ImpFileIO.lean`, `Proofs/SeekChk.lean`.
-/
import AgpTpf.Proofs.ImpFileIO
namespace AgpTpf.C14
open AgpTpf AgpTpf.ImpFileIO

/-- 4a. THE TIE, for all inputs: the bytes the translated `sequence_bytes` returns / the exception it raises are the model's.  The
    initial position `pos` of the handle does not occur on the right. -/
theorem sequence_bytes_is_source (file : Bytes) (pos : Nat) (info : FastaInfo) (start stop : Int) :
    (Gen.Imp.FastaIndex_sequence_bytes_imp { data := file, pos := pos } info start stop).map (fun r => r.2.data) =
      (sequenceBytes file info start stop).map (·.data) := by
  rw [seqBytesSrc_eq]
  cases sequenceBytes file info start stop <;> rfl

/-- 4b. the complete result, for all inputs: the handle still holds the file and is left at `seqEndPos` (the position after the last
    `read` / relative seek, computed with the model's functions); the buffer's cursor is at its end (the caller `seek(0)`s). -/
theorem sequence_bytes_source_full (file : Bytes) (pos : Nat) (info : FastaInfo) (start stop : Int) :
    Gen.Imp.FastaIndex_sequence_bytes_imp { data := file, pos := pos } info start stop =
      (sequenceBytes file info start stop).map (fun log =>
        (({ data := file, pos := (seqEndPos file info start stop).toNat } : PyRt.BinFile),
         ({ data := log.data, pos := log.data.length } : PyRt.BytesIO))) := by
  rw [seqBytesSrc_eq]
  cases sequenceBytes file info start stop <;> rfl

/-- 4c. where the handle is left, whenever the translated source returns -/
theorem sequence_bytes_handle (file : Bytes) (pos : Nat) (info : FastaInfo) (start stop : Int) (fh : PyRt.BinFile) (seq : PyRt.BytesIO)
    (h : Gen.Imp.FastaIndex_sequence_bytes_imp { data := file, pos := pos } info start stop = .ok (fh, seq)) :
    fh = { data := file, pos := (seqEndPos file info start stop).toNat } ∧ seq.pos = seq.data.length := by
  rw [seqBytesSrc_eq] at h
  cases hm : sequenceBytes file info start stop with
  | error e => rw [hm] at h; cases h
  | ok log =>
    rw [hm] at h
    cases h
    exact ⟨rfl, rfl⟩

/-- 4d. the case the model did not check before W12: where a relative seek inside the whole-lines loop has a negative target
    (`loopSeekNeg`), source and model raise, the same exception (`.zeroDiv` / `.other` from an earlier check, else `.other` from the
    loop: `sequence_bytes_loop_seek_oserror` is an input where it is the loop) -/
theorem sequence_bytes_loop_seek (file : Bytes) (pos : Nat) (info : FastaInfo) (start stop : Int)
    (h : loopSeekNeg file info start stop = true) :
    ∃ e, Gen.Imp.FastaIndex_sequence_bytes_imp { data := file, pos := pos } info start stop = .error e ∧
      sequenceBytes file info start stop = .error e := by
  obtain ⟨e, he⟩ := sequenceBytes_loopSeekNeg file info start stop h
  exact ⟨e, by rw [seqBytesSrc_eq, he], he⟩

/-- under `residues_per_line ≤ max_line_length` (every index the indexer writes; the model's `LaidOut` theorems assume `R ≤ M` too) the
    new check never fires: the checked loop of `sequenceBytes` is the unchecked recursion the layout theorems are written over -/
theorem sequence_bytes_loop_unchanged (file : Bytes) (info : FastaInfo) (k : Nat) (p : Int) (acc : ReadLog)
    (hle : info.rpl ≤ info.mll) (hp : 0 ≤ p) :
    readWholeLinesChk file info.rpl (info.mll - info.rpl) k p acc = .ok (readWholeLines file info.rpl (info.mll - info.rpl) k p acc) :=
  readWholeLinesChk_nonneg file _ _ (by omega) k p acc hp

/-! ### examples: a 2-record file `>a\nACGT\nNNAC\nGT\n>b\nTTTT\n` -/

def seqFile : Bytes := [62, 97, 10, 65, 67, 71, 84, 10, 78, 78, 65, 67, 10, 71, 84, 10, 62, 98, 10, 84, 84, 84, 84, 10]
def seqInfoA : FastaInfo := { length := 10, fileOffset := 3, rpl := 4, mll := 5 }
def seqInfoB : FastaInfo := { length := 4, fileOffset := 19, rpl := 4, mll := 5 }

example : seqInfoA.rpl ≤ seqInfoA.mll ∧ seqInfoB.rpl ≤ seqInfoB.mll := by decide

/-- a range inside one line (`CG`): one read; the handle (which was somewhere else) is left behind the bytes read -/
example : Gen.Imp.FastaIndex_sequence_bytes_imp { data := seqFile, pos := 7 } seqInfoA 2 3 =
    .ok ({ data := seqFile, pos := 6 }, { data := [67, 71], pos := 2 }) := by rfl
/-- a range spanning three lines (`GT` + `NNAC` + `GT`): the newlines are skipped by the relative seeks -/
example : Gen.Imp.FastaIndex_sequence_bytes_imp { data := seqFile, pos := 0 } seqInfoA 3 10 =
    .ok ({ data := seqFile, pos := 15 }, { data := [71, 84, 78, 78, 65, 67, 71, 84], pos := 8 }) := by rfl
example : seqEndPos seqFile seqInfoA 3 10 = 15 := by decide +kernel
/-- a range ending at a line end (`last_offset = 0`: the last line is a whole line, the handle is left behind its newline) -/
example : Gen.Imp.FastaIndex_sequence_bytes_imp { data := seqFile, pos := 0 } seqInfoA 1 8 =
    .ok ({ data := seqFile, pos := 13 }, { data := [65, 67, 71, 84, 78, 78, 65, 67], pos := 8 }) := by rfl
/-- the second record -/
example : Gen.Imp.FastaIndex_sequence_bytes_imp { data := seqFile, pos := 0 } seqInfoB 1 4 =
    .ok ({ data := seqFile, pos := 23 }, { data := [84, 84, 84, 84], pos := 4 }) := by rfl
/-- `residues_per_line = 0`: ZeroDivisionError (at `start // rpl`) -/
example : Gen.Imp.FastaIndex_sequence_bytes_imp { data := seqFile, pos := 0 } { seqInfoA with rpl := 0 } 3 10 = .error .zeroDiv := by
  rfl
/-- a negative target of the absolute seek: OSError -/
example : Gen.Imp.FastaIndex_sequence_bytes_imp { data := seqFile, pos := 0 } { seqInfoA with fileOffset := -9 } 3 10 = .error .other := by
  rfl

/-- THE FORMER DIFFERENCE (was `sequence_bytes_source_differs`; the old model returned `.ok` with b"AC" here): `rpl = 4 > mll = 1`, a
    2-byte file.  First read at byte 3 (past the end): nothing; `seek(-3, 1)` → 0; in the loop `read(4)` returns 2 bytes, `seek(-3, 1)`
    → −1: the source raises OSError, and so does the model; it is the check inside the loop that fires (`loopSeekNeg`). -/
theorem sequence_bytes_loop_seek_oserror :
    Gen.Imp.FastaIndex_sequence_bytes_imp { data := [65, 67], pos := 0 } { length := 8, fileOffset := 3, rpl := 4, mll := 1 } 1 8 =
      .error .other ∧
    sequenceBytes [65, 67] { length := 8, fileOffset := 3, rpl := 4, mll := 1 } 1 8 = .error .other ∧
    loopSeekNeg [65, 67] { length := 8, fileOffset := 3, rpl := 4, mll := 1 } 1 8 = true := by
  exact ⟨by rfl, by rfl, by decide +kernel⟩

/-- the hypothesis of 4d is satisfiable (the input above) -/
example : loopSeekNeg [65, 67] { length := 8, fileOffset := 3, rpl := 4, mll := 1 } 1 8 = true := by decide +kernel

/-- with `rpl > mll` and no short read no seek goes negative: both return, the same bytes -/
example :
    (Gen.Imp.FastaIndex_sequence_bytes_imp { data := seqFile, pos := 0 } { length := 8, fileOffset := 3, rpl := 4, mll := 1 } 1 8).map
      (fun r => r.2.data) = .ok [65, 67, 71, 84, 67, 71, 84, 10] ∧
    (sequenceBytes seqFile { length := 8, fileOffset := 3, rpl := 4, mll := 1 } 1 8).map (·.data) = .ok [65, 67, 71, 84, 67, 71, 84, 10] := by
  exact ⟨by rfl, by rfl⟩

end AgpTpf.C14
