/-
  C02 — Curated layout follows the Pretext edits to within three texel widths.

  Python: `BuildAssembly.remap_to_input_assembly` (build_assembly.py), `OverlapResult` (overlap_result.py),
  `OverhangPremise` / `OverhangResolver` (build_utils.py).  Model: `Model/Lookup.lean`, `Model/Remap.lean`,
  constant `Gen.improvesGuardFactor` (= −3, regenerated from the source).

  The FULL property (`remap_follows_script`, stated as a commented goal at the end of this file) quantifies over a
  formal model of the edit scripts PretextView can produce and needs a long geometric induction over the resolver loop;
  it is NOT proved here.  What IS proved, each at full strength (no `_partial` theorem), are the seven
  MECHANISMS the margin `3 × (1 + ⌊bp/texel⌋)` rests on.  With `err = 1 + ⌊bp/texel⌋` (M1) the argument is:

    * a Pretext coordinate is off by less than one texel < `err` bases from the base the curator meant;
    * right after the lookup a terminal row is thrown away only when it sticks out by more than `err` AND shares fewer
      than `err` bases with the bait (M2) — so a row holding `≥ err` bases of the piece survives;
    * a contig shared by two pieces is taken away from one of them only by the sub-texel rule (both shares `< err`) or
      when this `improves` that piece, which requires that the bait is left uncovered by LESS than `3·err` bases (M3, M4);
      at most one holder loses it per round, never all (M4);
    * every other shared contig is CUT, exactly at the Pretext coordinate (M5), the pieces in contig order with the
      contig's own two ends kept (M7), tiling the contig (C01 `cut_fragments_tiles`);
    * a piece is written out reversed with strands negated iff its Pretext orientation is `-` (M6).
  Hence what a piece can lose or gain lies within `3·err` of its two ends.

  Where each mechanism is proved (helper files `Proofs/C02*.lean`):
    M1  `err_length_of_text`, `err_length_of_text_iff`, `err_length_of_number`      — Proofs/C02Err.lean
    M2  `trim_large_cases`, `trim_large_guard_start`, `trim_large_guard_end`,
        `first_row_survives`, `last_row_survives`, `single_row_survives`,
        `single_row_long_bait_kept`                                                  — Proofs/C02Trim.lean
    M3  `improves_guard`, `improves_false_of_deep`, `improves_value`                  — Proofs/C02Fix.lean
    M4  `two_premise_rule`, `general_rule`, `fix_one_at_most_one`,
        `fix_one_applied_count`, `fix_touches_one_result`                            — Proofs/C02Fix.lean
    M5  `cut_at_bait_start`, `cut_at_bait_end`                                       — Proofs/C02Trim.lean (+ C18 `trimFragment_spec`)
    M6  `to_scaffold_orientation`, `to_scaffold_plus`, `to_scaffold_minus`           — Proofs/C02Trim.lean
    M7  `cut_visits_in_contig_order`, `cut_keeps_order`, `cut_pieces`                — Proofs/C02Cut.lean (+ C01 `cut_fragments_tiles`)

  FINDING (outside C02's quantifier, which has forward or reverse input contigs only): an input contig whose AGP
  orientation is `?` (strand 0) and which has to be cut between two Pretext pieces makes `cut_fragments` raise
  ValueError — `fragment_start_if_trimmed` and `trim_fragment` treat strand 0 like `-` (their `else` branch) while
  `cut_fragments` swaps keep_start/keep_end only for strand −1.  See `strand0_cut_fails` below (reproduced on the real
  code: input `s 1 100 1 W c 1 100 ?`, Pretext pieces `s:1-40`, `s:41-100`).
-/
import AgpTpf.Proofs.C02Err
import AgpTpf.Proofs.C02Trim
import AgpTpf.Proofs.C02Fix
import AgpTpf.Proofs.C02Cut
import AgpTpf.Properties.C01
namespace AgpTpf.C02
open AgpTpf OverlapResult
open AgpTpf.C01 (cutOrder cutSubs coverCount)

/-! ## M1 — the error length `1 + ⌊bp per texel⌋` -/

/-- `errLengthOfText` on a text of the shape `ip` (digits, non-empty) or `ip.fr` (digits around one dot, not both
    empty) is `1 + value(ip)`, i.e. `1 + ⌊x⌋` for the decimal number `x` the text denotes. -/
theorem err_length_of_text {t ip fr : Str} (h : DecimalShape t ip fr) :
    errLengthOfText t = .ok (1 + (digitsVal 0 ip : Int)) :=
  errLength_of_shape h

/-- … and it fails (ValueError, like `float()`) exactly on the texts that are not of that shape. -/
theorem err_length_of_text_iff (t : Str) :
    ((∃ v, errLengthOfText t = .ok v) ↔ ∃ ip fr, DecimalShape t ip fr) ∧
    (errLengthOfText t = .error .value ↔ ¬ ∃ ip fr, DecimalShape t ip fr) ∧
    (∀ e, errLengthOfText t = .error e → e = .value) := by
  rcases errLength_cases t with ⟨fr, hs⟩ | ⟨hn, he⟩
  · have hv := errLength_of_shape hs
    refine ⟨⟨fun _ => ⟨_, fr, hs⟩, fun _ => ⟨_, hv⟩⟩, ⟨fun h => ?_, fun h => absurd ⟨_, fr, hs⟩ h⟩, fun e h => ?_⟩
    · rw [hv] at h; cases h
    · rw [hv] at h; cases h
  · refine ⟨⟨fun ⟨v, h⟩ => ?_, fun h => absurd h hn⟩, ⟨fun _ => hn, fun _ => he⟩, fun e h => ?_⟩
    · rw [he] at h; cases h
    · rw [he] at h; cases h; rfl

/-- the shape spelled out -/
theorem decimalShape_iff (t ip fr : Str) :
    DecimalShape t ip fr ↔
      (∀ c ∈ ip, isDigit c = true) ∧ (∀ c ∈ fr, isDigit c = true) ∧
      ((t = ip ∧ fr = [] ∧ ip ≠ []) ∨ (t = ip ++ '.' :: fr ∧ (ip ≠ [] ∨ fr ≠ []))) := Iff.rfl

/-- in terms of numbers: the text of `n` or of `n.fr` gives `1 + n` -/
theorem err_length_of_number (n : Nat) (fr : Str) (hf : ∀ c ∈ fr, isDigit c = true) :
    errLengthOfText (natToStr n) = .ok (1 + (n : Int)) ∧
    errLengthOfText (natToStr n ++ '.' :: fr) = .ok (1 + (n : Int)) := by
  have hd := allDigits_natToStr n
  have hne := C05.natToStr_ne_nil n
  constructor
  · rw [errLength_int hd hne, C05.digitsVal_natToStr]
  · rw [errLength_frac hd hf (Or.inl hne), C05.digitsVal_natToStr]

example : DecimalShape "2300.000000".toList "2300".toList "000000".toList := by
  refine ⟨(allDigits_iff_all _).mpr (by decide), (allDigits_iff_all _).mpr (by decide), Or.inr ⟨by decide, Or.inl (by decide)⟩⟩
example : errLengthOfText "2300.000000".toList = .ok 2301 := by decide
example : errLengthOfText "2300.999".toList = .ok 2301 ∧ errLengthOfText "17".toList = .ok 18 ∧
    errLengthOfText ".5".toList = .ok 1 ∧ errLengthOfText "3.".toList = .ok 4 := by decide
example : errLengthOfText "1.2.3".toList = .error .value ∧ errLengthOfText ".".toList = .error .value ∧
    errLengthOfText [] = .error .value ∧ errLengthOfText "1e3".toList = .error .value := by decide

/-! ## concrete data for the non-vacuity examples -/

def fr (oid : Nat) (n : String) (s e st : Int) : Fragment :=
  { oid := oid, name := n.toList, start := s, stop := e, strand := st }
def gp (n : Int) : Row := .gap ⟨n, "scaffold".toList⟩
def mkBait (s e st : Int) : Fragment :=
  { name := "s".toList, start := s, stop := e, strand := st, tags := ["Painted".toList] }

def fa : Fragment := fr 1 "a" 1 100 1
def fb : Fragment := fr 2 "b" 1 50 (-1)
def fc : Fragment := fr 3 "c" 1 40 1
/-- scaffold `s`: a:1-100(+) at 1..100, gap 101..110, b:1-50(−) at 111..160, c:1-40(+) at 161..200 -/
def src : List Row := [.frag fa, gp 10, .frag fb, .frag fc]

/-- lookup of `s:98-160`: rows a, gap, b — `a` sticks out by 97 and shares 3 bases with the bait -/
def oA : OverlapResult := { bait := mkBait 98 160 1, start := 1, stop := 160, rows := [.frag fa, gp 10, .frag fb], name := "matches".toList }
theorem lookupA : findOverlaps src (mkBait 98 160 1) = .ok (some oA) := by decide +kernel
/-- lookup of `s:90-160`: same rows, `a` shares 11 bases -/
def oB : OverlapResult := { oA with bait := mkBait 90 160 1 }
theorem lookupB : findOverlaps src (mkBait 90 160 1) = .ok (some oB) := by decide +kernel
/-- lookup of `s:1-97`: the single row `a`, end overhang 3 -/
def oC : OverlapResult := { bait := mkBait 1 97 1, start := 1, stop := 100, rows := [.frag fa], name := "matches".toList }
theorem lookupC : findOverlaps src (mkBait 1 97 1) = .ok (some oC) := by decide +kernel
/-- lookup of `s:116-200` as a reversed piece: rows b, c — `b` (minus strand) sticks out by 5 -/
def oD : OverlapResult := { bait := mkBait 116 200 (-1), start := 111, stop := 200, rows := [.frag fb, .frag fc], name := "matches".toList }
theorem lookupD : findOverlaps src (mkBait 116 200 (-1)) = .ok (some oD) := by decide +kernel
/-- lookup of `s:20-170`: all rows; `a` sticks out by 19 at the start, `c` by 30 at the end -/
def oE : OverlapResult := { bait := mkBait 20 170 1, start := 1, stop := 200, rows := src, name := "matches".toList }
theorem lookupE : findOverlaps src (mkBait 20 170 1) = .ok (some oE) := by decide +kernel

/-! ## M2 — `trim_large_overhangs` discards a terminal row only under its guard -/

/-- complete case analysis of an accepted `trim_large_overhangs(err)`:
    either the early return (single row, bait longer than `err`), or: the start is discarded iff `StartGuard o err`
    (`start_overhang > err ∧ start_row_bait_overlap < err`); if that emptied the result it is returned; otherwise the
    end of the intermediate result `o1` is discarded iff `EndGuard o1 err`. -/
theorem trim_large_cases {o o' : OverlapResult} {err : Int} (h : trimLargeOverhangs o err = .ok o') :
    (EarlyKeep o err ∧ o' = o) ∨
    (¬ EarlyKeep o err ∧
      ∃ o1, ((StartGuard o err ∧ discardStart o = .ok o1) ∨ (¬ StartGuard o err ∧ o1 = o)) ∧
        ((StartGuard o err ∧ o1.rows = [] ∧ o' = o1) ∨
         (¬ (StartGuard o err ∧ o1.rows = []) ∧
            ((EndGuard o1 err ∧ discardEnd o1 = .ok o') ∨ (¬ EndGuard o1 err ∧ o' = o1))))) :=
  trimLarge_char h

theorem guards_iff (o : OverlapResult) (err : Int) :
    (EarlyKeep o err ↔ o.rows.length = 1 ∧ o.bait.length > err) ∧
    (StartGuard o err ↔ o.startOverhang > err ∧ ∃ ov, o.startRowBaitOverlap = .ok ov ∧ ov < err) ∧
    (EndGuard o err ↔ o.endOverhang > err ∧ ∃ ov, o.endRowBaitOverlap = .ok ov ∧ ov < err) :=
  ⟨Iff.rfl, Iff.rfl, Iff.rfl⟩

/-- the first row is discarded ONLY IF it was not the early return and `start_overhang > err ∧ start_row_bait_overlap < err`;
    in every other case the result is unchanged or only `discard_end()` ran (under its own guard) -/
theorem trim_large_guard_start {o o' : OverlapResult} {err : Int} (h : trimLargeOverhangs o err = .ok o') :
    (¬ EarlyKeep o err ∧ StartGuard o err ∧
      ∃ o1, discardStart o = .ok o1 ∧ (o' = o1 ∨ (o1.rows ≠ [] ∧ EndGuard o1 err ∧ discardEnd o1 = .ok o'))) ∨
    (¬ (¬ EarlyKeep o err ∧ StartGuard o err) ∧
      (o' = o ∨ (¬ EarlyKeep o err ∧ EndGuard o err ∧ discardEnd o = .ok o'))) :=
  trimLarge_start h

/-- the last row is discarded ONLY IF it was not the early return and, on the result `o1` left after the start was
    handled (`o` itself, or `o` with its start discarded and still non-empty), `end_overhang > err ∧
    end_row_bait_overlap < err`; in every other case the result is unchanged or only `discard_start()` ran -/
theorem trim_large_guard_end {o o' : OverlapResult} {err : Int} (h : trimLargeOverhangs o err = .ok o') :
    (¬ EarlyKeep o err ∧
      ∃ o1, (o1 = o ∨ (StartGuard o err ∧ discardStart o = .ok o1 ∧ o1.rows ≠ [])) ∧
        EndGuard o1 err ∧ discardEnd o1 = .ok o') ∨
    (o' = o ∨ (¬ EarlyKeep o err ∧ StartGuard o err ∧ discardStart o = .ok o')) := by
  rcases trimLarge_start h with ⟨he, hg, o1, hd, h2⟩ | ⟨_, h2⟩
  · rcases h2 with rfl | ⟨hne, hg1, hd1⟩
    · exact Or.inr (Or.inr ⟨he, hg, hd⟩)
    · exact Or.inl ⟨he, o1, Or.inr ⟨hg, hd, hne⟩, hg1, hd1⟩
  · rcases h2 with rfl | ⟨he, hg, hd⟩
    · exact Or.inr (Or.inl rfl)
    · exact Or.inl ⟨he, o, Or.inl rfl, hg, hd⟩

/-- consequently: a first row sharing `≥ err` bases with the bait survives, with `start` unchanged
    (result with ≥ 2 rows whose first row is a fragment, as the C18 invariant guarantees) -/
theorem first_row_survives {o o' : OverlapResult} {err ov : Int} {f : Fragment} {t : List Row}
    (hr : o.rows = .frag f :: t) (ht : t ≠ [])
    (hov : o.startRowBaitOverlap = .ok ov) (hge : err ≤ ov)
    (h : trimLargeOverhangs o err = .ok o') :
    (∃ t', o'.rows = .frag f :: t') ∧ o'.start = o.start ∧
      (o' = o ∨ (EndGuard o err ∧ discardEnd o = .ok o')) :=
  trimLarge_first_survives hr ht hov hge h

/-- symmetric: a last row sharing `≥ err` bases with the bait survives, with `stop` unchanged -/
theorem last_row_survives {o o' : OverlapResult} {err ov : Int} {f : Fragment} {t : List Row}
    (hr : o.rows = t ++ [.frag f]) (ht : t ≠ [])
    (hov : o.endRowBaitOverlap = .ok ov) (hge : err ≤ ov)
    (h : trimLargeOverhangs o err = .ok o') :
    (∃ t', o'.rows = t' ++ [.frag f]) ∧ o'.stop = o.stop ∧
      (o' = o ∨ (StartGuard o err ∧ discardStart o = .ok o')) :=
  trimLarge_last_survives hr ht hov hge h

/-- a single row (span = the row, C18 invariant (1)) sharing `≥ err` bases with the bait: nothing happens -/
theorem single_row_survives {o o' : OverlapResult} {err ov : Int} {r : Row}
    (hr : o.rows = [r]) (hspan : o.stop - o.start + 1 = r.length)
    (hov : o.startRowBaitOverlap = .ok ov) (hge : err ≤ ov)
    (h : trimLargeOverhangs o err = .ok o') : o' = o :=
  trimLarge_single_survives hr hspan hov hge h

/-- a single row is never discarded when `bait.length > err` (whatever the overhangs) -/
theorem single_row_long_bait_kept {o : OverlapResult} {err : Int} (h1 : o.rows.length = 1) (h2 : o.bait.length > err) :
    trimLargeOverhangs o err = .ok o :=
  trimLarge_single_long h1 h2

/-- `a` shares 3 < 5 bases and sticks out by 97 > 5: discarded, with the gap behind it; `b` stays -/
def oA' : OverlapResult := { oA with start := 111, rows := [.frag fb] }
example : trimLargeOverhangs oA 5 = .ok oA' := by decide
example : ¬ EarlyKeep oA 5 ∧ StartGuard oA 5 ∧ discardStart oA = .ok oA' :=
  ⟨(by decide : ¬ (oA.rows.length = 1 ∧ oA.bait.length > 5)), ⟨by decide, 3, by decide, by decide⟩, by decide⟩
/-- `a` shares 11 ≥ 5 bases: it survives (hypotheses of `first_row_survives`), although it sticks out by 89 -/
example : oB.rows = .frag fa :: [gp 10, .frag fb] ∧ oB.startRowBaitOverlap = .ok 11 ∧ oB.startOverhang = 89 ∧
    trimLargeOverhangs oB 5 = .ok oB := by decide
example : (∃ t', oB.rows = .frag fa :: t') ∧ oB.start = oB.start ∧ (oB = oB ∨ (EndGuard oB 5 ∧ discardEnd oB = .ok oB)) :=
  first_row_survives (o := oB) (t := [gp 10, .frag fb]) rfl (by decide) (show oB.startRowBaitOverlap = .ok 11 by decide)
    (by decide) (by decide)
/-- last row: `c` shares 10 ≥ 5 bases of `s:20-170` and sticks out by 30 -/
example : oE.rows = [.frag fa, gp 10, .frag fb] ++ [.frag fc] ∧ oE.endRowBaitOverlap = .ok 10 ∧ oE.endOverhang = 30 ∧
    trimLargeOverhangs oE 5 = .ok oE := by decide
/-- with `err = 12` the same `c` (10 < 12 shared, 30 > 12 out) is discarded at the end: `EndGuard` -/
example : EndGuard oE 12 ∧ trimLargeOverhangs oE 12 = .ok { oE with stop := 160, rows := [.frag fa, gp 10, .frag fb] } :=
  ⟨⟨by decide, 10, by decide, by decide⟩, by decide⟩
/-- single row under a long bait -/
example : oC.rows.length = 1 ∧ oC.bait.length > 5 ∧ trimLargeOverhangs oC 5 = .ok oC := by decide
example : oC.rows = [.frag fa] ∧ oC.stop - oC.start + 1 = (Row.frag fa).length ∧ oC.startRowBaitOverlap = .ok 97 := by decide

/-! ## M3 — `improves` and its guard against deep negative overhangs -/

/-- the factor in the source is −3 -/
theorem improves_guard_factor : Gen.improvesGuardFactor = -3 := by decide

/-- `improves(err) = True` implies: the result has ≥ 2 rows, the what-if overhang `a` (`overhang_if_applied`) exists and is
    `> −3·err`, and the error delta `|a| − |current overhang|` is negative -/
theorem improves_guard {p : Premise} {store : List Res} {err : Int} (h : p.improves store err = .ok true) :
    2 ≤ (getRes store p.sid).rows.length ∧
    ∃ a, p.overhangIfApplied store = .ok a ∧ a > -3 * err ∧
      p.delta store = .ok (iabs a - iabs (Premise.currentOverhang p store)) ∧
      iabs a - iabs (Premise.currentOverhang p store) < 0 := by
  obtain ⟨h1, a, ha, hd, hg⟩ := improves_true h
  rw [improves_guard_factor] at hg
  exact ⟨h1, a, ha, hg, delta_eq ha, hd⟩

/-- the usable contrapositive: if removing the terminal row would leave the bait uncovered by `≥ 3·err` bases
    (overhang `≤ −3·err`) the premise does not improve — the contig will be cut instead -/
theorem improves_false_of_deep {p : Premise} {store : List Res} {err a : Int}
    (ha : p.overhangIfApplied store = .ok a) (hdeep : a ≤ -3 * err) : p.improves store err = .ok false := by
  rw [improves_eq ha, improves_guard_factor]
  congr 1
  rw [decide_eq_false_iff_not]
  intro ⟨_, _, h3⟩
  omega

/-- the exact value of `improves` (it never raises on a non-empty result) -/
theorem improves_value {p : Premise} {store : List Res} {err : Int} (hne : (getRes store p.sid).rows ≠ []) :
    ∃ a, p.overhangIfApplied store = .ok a ∧
      p.improves store err =
        .ok (decide ((getRes store p.sid).rows.length ≠ 1 ∧
                     iabs a - iabs (Premise.currentOverhang p store) < 0 ∧ a > -3 * err)) := by
  obtain ⟨a, ha⟩ := improves_ok_of_rows hne
  refine ⟨a, ha, ?_⟩
  rw [improves_eq ha, improves_guard_factor]

/-- what `currentOverhang`, `overhangIfApplied` and `iabs` are -/
theorem premise_figures (p : Premise) (store : List Res) :
    (p.kind = .start → Premise.currentOverhang p store = (getRes store p.sid).startOverhang ∧
        p.overhangIfApplied store = (getRes store p.sid).overhangIfStartRemoved) ∧
    (p.kind = .stop → Premise.currentOverhang p store = (getRes store p.sid).endOverhang ∧
        p.overhangIfApplied store = (getRes store p.sid).overhangIfEndRemoved) ∧
    (∀ x : Int, iabs x = if x < 0 then -x else x) := by
  refine ⟨fun h => ?_, fun h => ?_, fun _ => rfl⟩ <;>
    simp [Premise.currentOverhang, Premise.overhangIfApplied, h]

def pA : Premise := { kind := .start, sid := 0, fragment := fa }
/-- removing `a` from `oA` (bait `s:98-160`, err 5): overhang 97 → −13 > −15, delta −84: improves -/
example : pA.overhangIfApplied [{ o := oA }] = .ok (-13) ∧ pA.improves [{ o := oA }] 5 = .ok true := by decide
/-- removing `a` from `oB` (bait `s:90-160`, err 5): would leave −21 ≤ −15: does not improve (hypotheses of the contrapositive) -/
example : pA.overhangIfApplied [{ o := oB }] = .ok (-21) ∧ (-21 : Int) ≤ -3 * 5 ∧ pA.improves [{ o := oB }] 5 = .ok false := by
  decide

/-! ## M4 — one premise list in `make_fixes`: at most one holder loses the contig -/

/-- Exactly two premises.  The fix is made by the sub-texel rule only if BOTH bait overlaps are `< err`; it is then
    applied to the premise with the strictly smaller overlap, on a tie to the second.  In every other case the
    general rule decides (`generalRule` is the `elif len(premises) > 1` block verbatim, see `general_rule`). -/
theorem two_premise_rule {err : Int} {store store' : List Res} {fixes fixes' : List Premise} {frst scnd : Premise}
    (h : fixOne err (store, fixes) [frst, scnd] = .ok (store', fixes')) :
    ∃ fo, frst.baitOverlap store = .ok fo ∧
      ((fo < err ∧ ∃ so, scnd.baitOverlap store = .ok so ∧ so < err ∧
          (if fo < so then frst else scnd).apply store = .ok store' ∧
          fixes' = fixes ++ [if fo < so then frst else scnd]) ∨
       ((err ≤ fo ∨ ∃ so, scnd.baitOverlap store = .ok so ∧ err ≤ so) ∧
          generalRule err store fixes [frst, scnd] = .ok (store', fixes'))) := by
  rw [fixOne_two] at h
  cases hfo : frst.baitOverlap store with
  | error e => rw [hfo] at h; cases h
  | ok fo =>
    rw [hfo] at h
    simp only [bind, Except.bind] at h
    refine ⟨fo, rfl, ?_⟩
    by_cases h1 : fo < err
    · rw [if_pos h1] at h
      cases hso : scnd.baitOverlap store with
      | error e => rw [hso] at h; cases h
      | ok so =>
        rw [hso] at h
        simp only at h
        by_cases h2 : so < err
        · rw [if_pos h2] at h
          refine Or.inl ⟨h1, so, rfl, h2, ?_⟩
          by_cases h3 : fo < so
          · rw [if_pos h3] at h ⊢
            cases ha : frst.apply store with
            | error e => rw [ha] at h; cases h
            | ok s =>
              rw [ha] at h
              simp only [pure, Except.pure, Except.ok.injEq, Prod.mk.injEq] at h
              exact ⟨by rw [h.1], h.2.symm⟩
          · rw [if_neg h3] at h ⊢
            cases ha : scnd.apply store with
            | error e => rw [ha] at h; cases h
            | ok s =>
              rw [ha] at h
              simp only [pure, Except.pure, Except.ok.injEq, Prod.mk.injEq] at h
              exact ⟨by rw [h.1], h.2.symm⟩
        · rw [if_neg h2] at h
          exact Or.inr ⟨Or.inr ⟨so, rfl, by omega⟩, h⟩
    · rw [if_neg h1] at h
      exact Or.inr ⟨Or.inl (by omega), h⟩

/-- any other number of premises goes straight to the general rule -/
theorem not_two_premises (err : Int) (store : List Res) (fixes ps : List Premise) (h : ps.length ≠ 2) :
    fixOne err (store, fixes) ps = generalRule err store fixes ps :=
  fixOne_other err store fixes ps h

/-- The general rule, whenever it returns: nothing changes, or there are ≥ 2 premises and exactly the premise `bst`
    with the smallest error delta (first in the stable sort by delta) is applied — and that only if `bst` improves and
    the next one, `nxt`, does not. -/
theorem general_rule {err : Int} {store store' : List Res} {fixes fixes' ps : List Premise}
    (h : generalRule err store fixes ps = .ok (store', fixes')) :
    (store' = store ∧ fixes' = fixes) ∨
    (2 ≤ ps.length ∧ ∃ bst nxt rest, sortPremsByDelta store ps = .ok (bst :: nxt :: rest) ∧
      (bst :: nxt :: rest).Perm ps ∧
      (∃ db, bst.delta store = .ok db ∧ ∀ q ∈ ps, ∃ dq, q.delta store = .ok dq ∧ db ≤ dq) ∧
      bst.improves store err = .ok true ∧ nxt.improves store err = .ok false ∧
      bst.apply store = .ok store' ∧ fixes' = fixes ++ [bst]) := by
  rcases generalRule_ok h with h0 | ⟨hl, bst, nxt, rest, hs, hb, hn, ha, hf⟩
  · exact Or.inl h0
  · exact Or.inr ⟨hl, bst, nxt, rest, hs, (sortPrems_spec hs).1, (sortPrems_head_min hs).2.2, hb, hn, ha, hf⟩

/-- In EVERY case: `fixOne` applies no premise, or exactly one premise of the list — and none when the list has fewer
    than two elements. -/
theorem fix_one_at_most_one {err : Int} {store store' : List Res} {fixes fixes' ps : List Premise}
    (h : fixOne err (store, fixes) ps = .ok (store', fixes')) :
    (store' = store ∧ fixes' = fixes) ∨
    (2 ≤ ps.length ∧ ∃ p ∈ ps, p.apply store = .ok store' ∧ fixes' = fixes ++ [p]) := by
  have gen : generalRule err store fixes ps = .ok (store', fixes') →
      (store' = store ∧ fixes' = fixes) ∨
      (2 ≤ ps.length ∧ ∃ p ∈ ps, p.apply store = .ok store' ∧ fixes' = fixes ++ [p]) := by
    intro hg
    rcases generalRule_ok hg with h0 | ⟨hl, bst, nxt, rest, hs, _, _, ha, hf⟩
    · exact Or.inl h0
    · exact Or.inr ⟨hl, bst, (sortPrems_head_min hs).1, ha, hf⟩
  by_cases h2 : ps.length = 2
  · obtain ⟨frst, scnd, rfl⟩ : ∃ a b, ps = [a, b] := by
      match ps, h2 with
      | [a, b], _ => exact ⟨a, b, rfl⟩
    obtain ⟨fo, _, hc⟩ := two_premise_rule h
    rcases hc with ⟨_, so, _, _, ha, hf⟩ | ⟨_, hg⟩
    · refine Or.inr ⟨by simp, _, ?_, ha, hf⟩
      split <;> simp
    · exact gen hg
  · rw [fixOne_other err store fixes ps h2] at h
    exact gen h

/-- the count form: the premises applied are `≤ 1` and `≤ length − 1` many, all from the list — so a contig shared by
    `n` results is never removed from all of them by one `fixOne` -/
theorem fix_one_applied_count {err : Int} {store store' : List Res} {fixes fixes' ps : List Premise}
    (h : fixOne err (store, fixes) ps = .ok (store', fixes')) :
    ∃ applied : List Premise, fixes' = fixes ++ applied ∧ applied.length ≤ 1 ∧ applied.length ≤ ps.length - 1 ∧
      (∀ p ∈ applied, p ∈ ps) ∧ (applied = [] → store' = store) := by
  rcases fix_one_at_most_one h with ⟨h1, h2⟩ | ⟨hl, p, hp, _, hf⟩
  · exact ⟨[], by simp [h2], by simp, by simp, by simp, fun _ => h1⟩
  · refine ⟨[p], hf, by simp, by simp; omega, by simpa using hp, by simp⟩

/-- and an applied premise rewrites only the one result it points at (by `discard_start` / `discard_end`): every
    other holder keeps all its rows -/
theorem fix_touches_one_result {p : Premise} {store store' : List Res} (h : p.apply store = .ok store') :
    store'.length = store.length ∧ (∀ i, i ≠ p.sid → store'[i]? = store[i]?) ∧
    ∃ o', (match p.kind with
            | .start => (getRes store p.sid).discardStart
            | .stop => (getRes store p.sid).discardEnd) = .ok o' ∧
          store' = store.set p.sid { store.getD p.sid default with o := o' } :=
  apply_only_touches h

/-- contig `a` is held by `oC` (piece `s:1-97`, 97 bases of it) and `oA` (piece `s:98-160`, 3 bases): the first overlap is
    `≥ err`, so the general rule decides; `oA`'s premise has the smaller delta and improves, `oC`'s (single row) does not:
    `a` is removed from `oA` only -/
def storeAC : List Res := [{ o := oC, added := true }, { o := oA, added := true }]
def pC0 : Premise := { kind := .start, sid := 0, fragment := fa }
def pA1 : Premise := { kind := .start, sid := 1, fragment := fa }
example : pC0.baitOverlap storeAC = .ok 97 ∧ pA1.baitOverlap storeAC = .ok 3 ∧
    fixOne 5 (storeAC, []) [pC0, pA1] = .ok ([{ o := oC, added := true }, { o := oA', added := true }], [pA1]) := by
  decide
example : sortPremsByDelta storeAC [pC0, pA1] = .ok [pA1, pC0] ∧ pA1.improves storeAC 5 = .ok true ∧
    pC0.improves storeAC 5 = .ok false := by decide

/-- sub-texel rule: the 4-base contig `y` lies across the boundary of the pieces `t:1-52` / `t:53-104` (2 bases in each,
    err 5): both overlaps `< err`, tie → the SECOND premise is applied; with pieces `t:1-51` / `t:52-104` (1 and 3
    bases) → the first -/
def fx : Fragment := fr 11 "x" 1 50 1
def fy : Fragment := fr 12 "y" 1 4 1
def fz : Fragment := fr 13 "z" 1 50 1
def src2 : List Row := [.frag fx, .frag fy, .frag fz]
def mkBaitT (s e : Int) : Fragment := { name := "t".toList, start := s, stop := e, strand := 1, tags := ["Painted".toList] }
def oXY (e : Int) : OverlapResult := { bait := mkBaitT 1 e, start := 1, stop := 54, rows := [.frag fx, .frag fy], name := "matches".toList }
def oYZ (s : Int) : OverlapResult := { bait := mkBaitT s 104, start := 51, stop := 104, rows := [.frag fy, .frag fz], name := "matches".toList }
theorem lookupXY : findOverlaps src2 (mkBaitT 1 52) = .ok (some (oXY 52)) ∧ findOverlaps src2 (mkBaitT 1 51) = .ok (some (oXY 51)) := by
  constructor <;> decide +kernel
theorem lookupYZ : findOverlaps src2 (mkBaitT 53 104) = .ok (some (oYZ 53)) ∧ findOverlaps src2 (mkBaitT 52 104) = .ok (some (oYZ 52)) := by
  constructor <;> decide +kernel
def pY0 : Premise := { kind := .stop, sid := 0, fragment := fy }
def pY1 : Premise := { kind := .start, sid := 1, fragment := fy }
example : pY0.baitOverlap [{ o := oXY 52 }, { o := oYZ 53 }] = .ok 2 ∧ pY1.baitOverlap [{ o := oXY 52 }, { o := oYZ 53 }] = .ok 2 ∧
    fixOne 5 ([{ o := oXY 52 }, { o := oYZ 53 }], []) [pY0, pY1] =
      .ok ([{ o := oXY 52 }, { o := { oYZ 53 with start := 55, rows := [.frag fz] } }], [pY1]) := by decide
example : pY0.baitOverlap [{ o := oXY 51 }, { o := oYZ 52 }] = .ok 1 ∧ pY1.baitOverlap [{ o := oXY 51 }, { o := oYZ 52 }] = .ok 3 ∧
    fixOne 5 ([{ o := oXY 51 }, { o := oYZ 52 }], []) [pY0, pY1] =
      .ok ([{ o := { oXY 51 with stop := 50, rows := [.frag fx] } }, { o := oYZ 52 }], [pY0]) := by decide
/-- a single premise: nothing is applied -/
example : fixOne 5 (storeAC, []) [pA1] = .ok (storeAC, []) := by decide

/-! ## M5 — `trim_fragment` cuts exactly at the Pretext coordinate -/

/-- `f` is the first row.  With `¬ keep_start` and a positive start overhang the result then starts exactly at the
    bait's start, and the new fragment loses exactly `start_overhang` bases at the side that lies at the result's start:
    `start` for a plus-strand contig, `end` otherwise.  With `keep_start` (or no positive overhang) nothing moves there. -/
theorem cut_at_bait_start {o o' : OverlapResult} {f new : Fragment} {t : List Row} {ks ke : Bool} {oid : Nat}
    (hr : o.rows = .frag f :: t) (h : trimFragment o f ks ke oid = .ok (o', new)) :
    (ks = false → o.startOverhang > 0 →
      o'.start = o.bait.start ∧ o'.bait = o.bait ∧
      (f.strand = 1 → new.start = f.start + o.startOverhang) ∧
      (f.strand ≠ 1 → new.stop = f.stop - o.startOverhang)) ∧
    ((ks = true ∨ o.startOverhang ≤ 0) →
      o'.start = o.start ∧ (f.strand = 1 → new.start = f.start) ∧ (f.strand ≠ 1 → new.stop = f.stop)) := by
  obtain ⟨d1, hd, h1, h2, h3⟩ := trimFragment_start hr h
  constructor
  · intro hk hpos
    rw [if_pos ⟨hpos, hk⟩] at hd
    subst hd
    refine ⟨by rw [h1]; simp only [startOverhang]; omega, h2, fun hs => ?_, fun hs => ?_⟩
    · rwa [if_pos hs] at h3
    · rwa [if_neg hs] at h3
  · intro hk
    have : d1 = 0 := by
      rw [hd]; split
      · rename_i hh; rcases hk with hk | hk
        · rw [hk] at hh; exact absurd hh.2 (by simp)
        · omega
      · rfl
    subst this
    refine ⟨by omega, fun hs => ?_, fun hs => ?_⟩
    · rw [if_pos hs] at h3; omega
    · rw [if_neg hs] at h3; omega

/-- symmetric at the end: `f` is the last row -/
theorem cut_at_bait_end {o o' : OverlapResult} {f new : Fragment} {t : List Row} {ks ke : Bool} {oid : Nat}
    (hr : o.rows = t ++ [.frag f]) (h : trimFragment o f ks ke oid = .ok (o', new)) :
    (ke = false → o.endOverhang > 0 →
      o'.stop = o.bait.stop ∧ o'.bait = o.bait ∧
      (f.strand = 1 → new.stop = f.stop - o.endOverhang) ∧
      (f.strand ≠ 1 → new.start = f.start + o.endOverhang)) ∧
    ((ke = true ∨ o.endOverhang ≤ 0) →
      o'.stop = o.stop ∧ (f.strand = 1 → new.stop = f.stop) ∧ (f.strand ≠ 1 → new.start = f.start)) := by
  obtain ⟨d2, hd, h1, h2, h3⟩ := trimFragment_end hr h
  constructor
  · intro hk hpos
    rw [if_pos ⟨hpos, hk⟩] at hd
    subst hd
    refine ⟨by rw [h1]; simp only [endOverhang]; omega, h2, fun hs => ?_, fun hs => ?_⟩
    · rwa [if_pos hs] at h3
    · rwa [if_neg hs] at h3
  · intro hk
    have : d2 = 0 := by
      rw [hd]; split
      · rename_i hh; rcases hk with hk | hk
        · rw [hk] at hh; exact absurd hh.2 (by simp)
        · omega
      · rfl
    subst this
    refine ⟨by omega, fun hs => ?_, fun hs => ?_⟩
    · rw [if_pos hs] at h3; omega
    · rw [if_neg hs] at h3; omega

/-- plus strand at the start: piece `s:20-170` cuts `a:1-100` at base 20 (= 1 + 19), result starts at 20 = bait start -/
example : oE.rows = .frag fa :: [gp 10, .frag fb, .frag fc] ∧ oE.startOverhang = 19 ∧
    (trimFragment oE fa false false 50).toOption.map (fun r => (r.1.start, r.2.start, r.2.stop)) = some (20, 20, 100) := by
  decide
/-- minus strand at the start: piece `s:116-200` cuts `b:1-50(−)` at its END: 50 − 5 = 45 -/
example : oD.rows = .frag fb :: [.frag fc] ∧ oD.startOverhang = 5 ∧
    (trimFragment oD fb false false 50).toOption.map (fun r => (r.1.start, r.2.start, r.2.stop)) = some (116, 1, 45) := by
  decide
/-- plus strand at the end: `c:1-40` at 161..200 under `s:20-170` keeps 1..10 -/
example : oE.rows = [.frag fa, gp 10, .frag fb] ++ [.frag fc] ∧ oE.endOverhang = 30 ∧
    (trimFragment oE fc false false 50).toOption.map (fun r => (r.1.stop, r.2.start, r.2.stop)) = some (170, 1, 10) := by
  decide
/-- `keep_start`: nothing moves at the start -/
example : (trimFragment oE fa true false 50).toOption.map (fun r => (r.1.start, r.2.start, r.2.stop)) = some (1, 1, 100) := by
  decide

/-! ## M6 — orientation of a piece in the output -/

/-- Pretext orientation `+` (or unknown, 0): the rows as they are -/
theorem to_scaffold_plus {o : OverlapResult} (h : o.bait.strand ≠ -1) : toScaffoldRows o = o.rows :=
  toScaffoldRows_plus h

/-- Pretext orientation `−`: the rows in reverse order, every fragment's strand negated, gaps unchanged -/
theorem to_scaffold_minus {o : OverlapResult} (h : o.bait.strand = -1) :
    toScaffoldRows o = o.rows.reverse.map Row.reverse ∧
    (∀ f : Fragment, Row.reverse (.frag f) = .frag { f with strand := -1 * f.strand }) ∧
    (∀ g : Gap, Row.reverse (.gap g) = .gap g) :=
  ⟨toScaffoldRows_minus h, fun _ => rfl, fun _ => rfl⟩

/-- both cases at once: output strand = input strand × piece orientation (`orientRow s` multiplies the strand of a
    fragment row by `s` and leaves everything else, and gap rows, alone); the number of rows is preserved -/
theorem to_scaffold_orientation {o : OverlapResult} (h : o.bait.strand = 1 ∨ o.bait.strand = -1) :
    toScaffoldRows o = (if o.bait.strand = -1 then o.rows.reverse else o.rows).map (orientRow o.bait.strand) ∧
    (toScaffoldRows o).length = o.rows.length ∧
    (∀ (s : Int) (f : Fragment), orientRow s (.frag f) = .frag { f with strand := f.strand * s }) ∧
    (∀ (s : Int) (g : Gap), orientRow s (.gap g) = .gap g) :=
  ⟨toScaffoldRows_orient h, toScaffoldRows_length o, fun _ _ => rfl, fun _ _ => rfl⟩

/-- the gap rows of the output are those of the piece (so the input's internal gaps are carried over) -/
theorem to_scaffold_gaps (o : OverlapResult) (g : Gap) : Row.gap g ∈ toScaffoldRows o ↔ Row.gap g ∈ o.rows :=
  C01.gap_mem_toScaffoldRows o g

example : oD.bait.strand = -1 ∧ toScaffoldRows oD = [.frag { fc with strand := -1 }, .frag { fb with strand := 1 }] := by decide
example : oE.bait.strand = 1 ∧ toScaffoldRows oE = src := by decide

/-! ## M7 — `cut_fragments`: holders in contig order, the contig's own ends kept -/

/-- the holders are visited in ascending `fragment_start_if_trimmed` (stable sort, so a permutation of the holders) -/
theorem cut_visits_in_contig_order {b : Build} {fnd : Found} {ordered : List Nat} (h : cutOrder b fnd = .ok ordered) :
    ordered.Perm fnd.scaffolds ∧
    ∃ keyed : List (Int × Nat), keyed.map (·.2) = ordered ∧
      (∀ kp ∈ keyed, (getRes b.store kp.2).fragmentStartIfTrimmed fnd.fragment = .ok kp.1) ∧
      keyed.Pairwise (fun a c => a.1 ≤ c.1) :=
  cutOrder_spec h

/-- the sort key: the contig coordinate at which the holder's share of the contig begins — `start + start_overhang` for a
    plus-strand contig that is the holder's first row, `start + end_overhang` for any other strand when it is the last row,
    else the contig's start -/
theorem fragment_start_if_trimmed_eq {o : OverlapResult} {f : Fragment} {a b : Bool}
    (hs : firstIs o f = .ok a) (he : lastIs o f = .ok b) :
    o.fragmentStartIfTrimmed f =
      .ok (if f.strand = 1 then (if a then f.start + o.startOverhang else f.start)
           else (if b then f.start + o.endOverhang else f.start)) :=
  fragmentStartIfTrimmed_eq hs he

theorem cut_flags_eq (strand : Int) (i last : Nat) :
    cutFlags strand i last = if strand = -1 then (i == last, i == 0) else (i == 0, i == last) := rfl

/-- Whenever `cut_fragments` returns: with `ordered` the visiting order and `subs` the pieces made (`cutOrder`,
    `cutSubs`: specification functions from C01), the `j`-th piece is what `trim_fragment` returns for the `j`-th holder
    with `(keep_start, keep_end) = cutFlags strand j last` — first holder keeps the start, last keeps the end, the two
    flags swapped for a minus-strand contig — and object id `nextOid + j`; the result it is applied to is the stored one
    (unchanged unless the same holder id was visited earlier).  Consequently, for a plus- or minus-strand contig, the first
    piece begins at the contig's first base and the last piece ends at its last base. -/
theorem cut_keeps_order (b b' : Build) (fnd : Found) (h : cutFragments b fnd = .ok b') :
    ∃ ordered subs, cutOrder b fnd = .ok ordered ∧ cutSubs b fnd = .ok subs ∧ subs.length = ordered.length ∧
      (∀ j sid new, ordered[j]? = some sid → subs[j]? = some new →
        ∃ (bj : Build) (o' : OverlapResult),
          (∀ s, s ∉ ordered.take j → bj.store.getD s default = b.store.getD s default) ∧
          (bj.store.getD sid default).o.trimFragment fnd.fragment
              (cutFlags fnd.fragment.strand j (ordered.length - 1)).1
              (cutFlags fnd.fragment.strand j (ordered.length - 1)).2 (b.nextOid + j) = .ok (o', new)) ∧
      ((fnd.fragment.strand = 1 ∨ fnd.fragment.strand = -1) →
        (∀ new, subs[0]? = some new → new.start = fnd.fragment.start) ∧
        (∀ new, subs[ordered.length - 1]? = some new → new.stop = fnd.fragment.stop)) :=
  cut_keeps_order_aux b b' fnd h

/-- together with C01 (`cut_fragments_tiles`): the pieces — one per holder, each cut by `trim_fragment` at the bait
    coordinates of its holder (M5) — are valid sub-intervals of the contig on the same strand and every base of the contig
    lies in exactly one of them: the contig is cut exactly at the interior bait boundaries. -/
theorem cut_pieces (b b' : Build) (fnd : Found) (h : cutFragments b fnd = .ok b') :
    ∃ subs, cutSubs b fnd = .ok subs ∧ subs.length = fnd.scaffolds.length ∧
      (∀ s ∈ subs, fnd.fragment.start ≤ s.start ∧ s.stop ≤ fnd.fragment.stop ∧ s.start ≤ s.stop ∧
        s.name = fnd.fragment.name ∧ s.strand = fnd.fragment.strand) ∧
      (∀ x, coverCount subs x = if fnd.fragment.start ≤ x ∧ x ≤ fnd.fragment.stop then 1 else 0) ∧
      ((fnd.fragment.strand = 1 ∨ fnd.fragment.strand = -1) →
        (∀ new, subs[0]? = some new → new.start = fnd.fragment.start) ∧
        (∀ new, subs[subs.length - 1]? = some new → new.stop = fnd.fragment.stop)) := by
  obtain ⟨subs, h1, h2, _, h4, h5⟩ := C01.cut_fragments_tiles b b' fnd h
  obtain ⟨ordered, subs', _, h1', hl, _, hends⟩ := cut_keeps_order b b' fnd h
  rw [h1] at h1'; cases h1'
  refine ⟨subs, h1, h2, h4, h5, fun hst => ?_⟩
  rw [hl]; exact hends hst

/-- `a:1-100(+)` held by the pieces `s:1-40` and `s:41-100`: visited in that order, cut into 1..40 and 41..100 -/
def oP (s e : Int) : OverlapResult := { bait := mkBait s e 1, start := 1, stop := 100, rows := [.frag fa], name := "matches".toList }
theorem lookupP : findOverlaps [.frag fa] (mkBait 1 40 1) = .ok (some (oP 1 40)) ∧
    findOverlaps [.frag fa] (mkBait 41 100 1) = .ok (some (oP 41 100)) := by constructor <;> decide +kernel
def bP : Build :=
  { namer := { autosomePrefix := [] }, nextOid := 20, joinGap := none, err := 3,
    store := [{ o := oP 41 100, added := true }, { o := oP 1 40, added := true }] }
def fndP : Found := { fragment := fa, scaffolds := [0, 1] }
example : cutOrder bP fndP = .ok [1, 0] ∧
    (cutSubs bP fndP).toOption.map (fun l => l.map (fun s => (s.start, s.stop, s.oid))) = some [(1, 40, 20), (41, 100, 21)] ∧
    (cutFragments bP fndP).toOption.map (fun b => (b.cuts, b.store.map (fun r => (r.o.start, r.o.stop)))) =
      some (1, [(41, 100), (1, 40)]) := by decide
/-- the same contig on the minus strand: the holder of scaffold positions 41..100 gets contig bases 1..60 and is
    visited first, with the flags swapped -/
def fam : Fragment := fr 1 "a" 1 100 (-1)
def oM (s e : Int) : OverlapResult := { bait := mkBait s e 1, start := 1, stop := 100, rows := [.frag fam], name := "matches".toList }
def bM : Build :=
  { namer := { autosomePrefix := [] }, nextOid := 20, joinGap := none, err := 3,
    store := [{ o := oM 1 40, added := true }, { o := oM 41 100, added := true }] }
example : cutOrder bM { fragment := fam, scaffolds := [0, 1] } = .ok [1, 0] ∧
    cutFlags (-1) 0 1 = (false, true) ∧ cutFlags (-1) 1 1 = (true, false) ∧
    (cutSubs bM { fragment := fam, scaffolds := [0, 1] }).toOption.map (fun l => l.map (fun s => (s.start, s.stop))) =
      some [(1, 60), (61, 100)] ∧
    (cutFragments bM { fragment := fam, scaffolds := [0, 1] }).toOption.map (fun b => b.cuts) = some 1 := by decide

/-- FINDING: the same contig with AGP orientation `?` (strand 0) cannot be cut: the order and `trim_fragment` treat it
    like a minus-strand contig, the keep flags are those of a plus-strand contig, both holders keep the whole contig
    and the QC raises ValueError.  (Outside C02's quantifier: forward or reverse input contigs.) -/
def errOf {α} : R α → Option Err
  | .error e => some e
  | .ok _ => none
theorem eq_error_of_errOf {α} {x : R α} {e : Err} (h : errOf x = some e) : x = .error e := by
  cases x with
  | error e' => simp only [errOf, Option.some.injEq] at h; rw [h]
  | ok v => simp [errOf] at h
def fa0 : Fragment := fr 1 "a" 1 100 0
def o0 (s e : Int) : OverlapResult := { bait := mkBait s e 1, start := 1, stop := 100, rows := [.frag fa0], name := "matches".toList }
def b0 : Build :=
  { namer := { autosomePrefix := [] }, nextOid := 20, joinGap := none, err := 3,
    store := [{ o := o0 1 40, added := true }, { o := o0 41 100, added := true }] }
theorem strand0_cut_fails :
    findOverlaps [.frag fa0] (mkBait 1 40 1) = .ok (some (o0 1 40)) ∧
    findOverlaps [.frag fa0] (mkBait 41 100 1) = .ok (some (o0 41 100)) ∧
    (cutSubs b0 { fragment := fa0, scaffolds := [0, 1] }).toOption.map (fun l => l.map (fun s => (s.start, s.stop))) =
      some [(1, 100), (1, 100)] ∧
    cutFragments b0 { fragment := fa0, scaffolds := [0, 1] } = .error .value := by
  refine ⟨by decide +kernel, by decide +kernel, by decide, eq_error_of_errOf (by decide)⟩

/-! ## The full property — a named goal, NOT proved

  theorem remap_follows_script
      (input : List Scaffold) (hin : WellFormedInput input)        -- distinct scaffold names, distinct contig keys and
                                                                   -- object ids, strands ±1, lengths ≥ 1
      (t : Rat) (ht : 1 ≤ t) (text : Str) (htext : text denotes t) -- bp per texel; `errLengthOfText text = .ok err` by M1
      (sc : PretextScript input t)                                 -- MISSING (1): formal model of PretextView's output
      (prefix_ : Str) (joinGap : Option Gap) :
      ∃ outs stats, remap input sc.toAgp prefix_ joinGap err = .ok (outs, stats) ∧
        ∀ piece ∈ sc.pieces,
          ∃ out ∈ outs.flatMap (·.scaffolds), ∃ i n,
            -- the bases of `piece` lying more than 3·err from its two ends …
            -- … are one contiguous run `out.rows[i .. i+n)` (terminal rows possibly cut),
            CoreRun input piece (3 * err) (out.rows.drop i |>.take n) ∧
            -- oriented as input orientation × piece orientation (M6), internal gaps those of the input (M6, C18),
            -- pieces of one Pretext scaffold with the same destination in Pretext order (fuse order, C01 S3 / C07),
            -- and a cut deeper than 3·err inside a contig splits it exactly at the Pretext coordinate (M5, M7).
            True

  Missing ingredients, precisely:
   (1) `PretextScript`: per input scaffold of length `L` a texel count `n ∈ {⌊L/t⌋, ⌈L/t⌉}` (sub-texel scaffolds present
       or absent), a cut set on the texel grid `{0..n}` with all pieces ≥ 2 texels, the map texel boundary ↦ bp coordinate
       PretextView writes into its AGP, a permutation / orientation / grouping of the pieces into output scaffolds, the
       `Painted` tags; and `sc.toAgp : List Scaffold`, the Pretext assembly the CLI parses.  Needed fact about it:
       consecutive pieces of one input scaffold have baits that tile `[1, L']` with `|L' − L| < t`, and each bait boundary
       is within `t < err` of the base the cut designates.
   (2) `L_tiling`, the geometry lemma: for baits tiling a scaffold as in (1), after `find_assembly_overlaps`
       (C12 `lookup = brute force`, C18 `inv_lookup`, M2) every contig overlapping a piece by `≥ err` is a row of that
       piece's result; a contig is shared only by results of pieces adjacent on the input scaffold, as the last row of
       the one and the first row of the other.
   (3) the resolver induction: over the rounds of `discard_overhanging_fragments` (measure `totalRows`, one row removed
       per applied premise by M4 / C18 `inv_step_discardStart/End`) the invariant "every row removed from a result lay
       within 3·err of the bait end, every contig still shared is shared by adjacent pieces" is kept: by M3 a premise with
       what-if overhang `≤ −3·err` never improves, by M4 at most one holder per contig and round loses it and never the
       only holder; this also needs the registry link L2/L3 that C01 lists as missing (holders list = results whose rows
       contain the contig, kept in step by `applyFixBookkeeping`).
   (4) completion without error: `cut_fragments`' QC passes for the remaining shared contigs — from (2),(3) the holders of
       a contig are adjacent pieces whose baits abut, so by M5/M7 their pieces abut at the bait coordinates and by C01
       `qc_tiles` (converse direction, not yet proved) the QC accepts; `make_scaffold_name` / `label_scaffold` /
       `ChrNamer` do not raise on the tags a `PretextScript` can carry (C08–C10 material).
-/

end AgpTpf.C02
