/- C02 — statements under construction -/
import AgpTpf.Model.Remap
namespace AgpTpf.C02
open AgpTpf
theorem appendRows_nil (rows : List Row) (g : Option Gap) : Scaffold.appendRows [] rows g = rows := by
  cases g <;> simp [Scaffold.appendRows]
end AgpTpf.C02
