/-
  C10 (T1c, phase 2) — `ChrNamer.new_group`, `ChrNamer.check_for_painted_scaffolds_missing_haplotype_tag`, `ChrNamer.check_groups` and
  `ChrNamer.build_groups` AS TRANSLATED FROM THE PYTHON SOURCE (`Gen/Imp2.lean`) against the model's `newGroup`, `groupsHaveErrors`,
  `buildGroups` and the line `if groupsHaveErrors groups then throw .chrNamer` of `assembliesFused` (`Model/Remap.lean`).

  Arenas.  A ChrGroup object is an index into `heap_g : List PyRt.GData`; `self.groups` is `some refs`.  The abstraction
  `absG : PyRt.GData → GroupData` (`Proofs/ImpBuildGroups.lean`) maps the source's `Option Str` original-name keys to the model's `Str` keys
  (`some k ↦ k`); `conG : GroupData → PyRt.GData` goes back (`absG (conG g) = g` always; `conG (absG d) = d` when no key is None).

  Well-formedness (all facts the caller can establish)
  * `(hs.map (·.1)).Nodup`: `haplotypes_seen` is a dictionary.  (For a list with a repeated key, `ChrGroup.__init__`'s `data[hap] = {}` keeps one
    entry where `newGroup` makes two.)
  * `CheckWf keys d`: the haplotype keys of group `d` are `keys` in that order; no scaffold list under an original name is empty
    (`setdefault(name, []).append(s)` never leaves one) — so `scaffolds[name][0]` in `check_groups` does not raise.
  * `NonVoid d`: some haplotype of the group has a scaffold (`new_group()` is always followed by `add_scaffold_to_haplotype`).

  DIFFERENCES FOUND (both on inputs the program cannot produce; the theorems exclude them by hypothesis and the `example`s exhibit them)
  (a) a group in which NO haplotype has a scaffold: the source's `check_groups` marks no error (`row_count = max_hap_set_count() = 0`, the
      `range(row_count)` loop does not run, so the `<empty>` test of the first haplotype is never reached); the model's `groupsHaveErrors`
      reports the empty first haplotype.  Through `build_groups` this is reachable only with `self.scaffolds = []` while
      `self.haplotypes_seen ≠ {}` (impossible: `add_scaffold` fills both): source returns normally, model raises ChrNamerError
      (`build_groups_no_entries`).
  (b) an entry of `self.scaffolds` whose haplotype text is not a key of `haplotypes_seen`: the source raises AttributeError
      (`self.data.get(hap_name)` is None), the model's `groupAdd` adds the key.  Excluded by `hkeys` (true: `add_scaffold` adds both at once).
  NOT a difference: the ERROR ORDER (ValueError for a missing / empty `original_name` inside the loop; KeyError / IndexError of
  `original_tags_of_haplotype_scaffold`; ChrNamerError last) is the same on both sides, and `last_orig = None` never reaches the dictionary
  lookup with a different outcome (the keys stored are non-empty strings, so `None` / `""` are both absent).

  Proofs: `AgpTpf/Proofs/ImpBuildGroups.lean`.
-/
import AgpTpf.Proofs.ImpBuildGroups
namespace AgpTpf.C10
open AgpTpf AgpTpf.ImpBuildGroups

/-! ### the inputs the `example`s run on -/

def ibHap1 : Str := ['H', 'a', 'p', '1']
def ibHap2 : Str := ['H', 'a', 'p', '2']
def ibHs : List (Str × Bool) := [(ibHap1, true), (ibHap2, true)]
def ibS (n o : Str) (tags : List Str) : Scaffold := { name := n, originalName := some o, originalTags := some tags }
/-- six fused scaffolds: S1 | S2, S2 (an unloc) | S3 (a Singleton) | S4 | S5 -/
def ibHeapB : List Scaffold :=
  [ibS ['a'] ['S', '1'] [], ibS ['b'] ['S', '2'] [], ibS ['c'] ['S', '2'] [], ibS ['d'] ['S', '3'] [sSingleton],
   ibS ['e'] ['S', '4'] [], ibS ['f'] ['S', '5'] []]
def ibEntries : List (Str × Nat) := [(ibHap1, 0), (ibHap2, 1), (ibHap2, 2), (ibHap1, 3), (ibHap1, 4), (ibHap2, 5)]
/-- the three groups `build_groups` makes of them -/
def ibGroups : List GroupData :=
  [[(ibHap1, [(['S', '1'], [0])]), (ibHap2, [(['S', '2'], [1, 2])])],
   [(ibHap1, [(['S', '3'], [3])]), (ibHap2, [])],
   [(ibHap1, [(['S', '4'], [4])]), (ibHap2, [(['S', '5'], [5])])]]

/-! ### 1. `new_group` -/

/-- `new_group()` allocates the model's `newGroup keys` at the end of the arena, appends the reference to `self.groups` and returns it;
    AttributeError when `self.groups` is None (`name_chromosomes` sets it to `[]` first). -/
theorem new_group_is_source (heap_g : List PyRt.GData) (self_groups : Option (List Nat)) (hs : List (Str × Bool))
    (hnd : (hs.map (·.1)).Nodup) :
    Gen.Imp.ChrNamer_new_group heap_g self_groups hs =
      (match self_groups with
       | none => .error .attribute
       | some refs => .ok (heap_g ++ [conG (newGroup (hs.map (·.1)))], some (refs ++ [heap_g.length]), heap_g.length)) ∧
    absG (conG (newGroup (hs.map (·.1)))) = newGroup (hs.map (·.1)) := by
  refine ⟨?_, absG_conG _⟩
  cases self_groups with
  | none => exact new_group_none heap_g hs
  | some refs => rw [conG_newGroup]; exact new_group_eq heap_g refs hs hnd

example : (ibHs.map (·.1)).Nodup := by decide
example : Gen.Imp.ChrNamer_new_group [conG (ibGroups.getD 0 [])] (some [0]) ibHs
    = .ok ([conG (ibGroups.getD 0 []), [(ibHap1, []), (ibHap2, [])]], some [0, 1], 1) := rfl
/-- why `Nodup`: a repeated key -/
example : Gen.Imp.ChrNamer_new_group [] (some []) [(ibHap1, true), (ibHap1, false)] = .ok ([[(ibHap1, [])]], some [0], 0)
    ∧ newGroup [ibHap1, ibHap1] = [(ibHap1, []), (ibHap1, [])] := ⟨rfl, rfl⟩

/-! ### 2. `check_for_painted_scaffolds_missing_haplotype_tag` -/

/-- The check never raises.  As translated it is DEAD CODE: `add_scaffold` stores `str(hap)` — the text "None" for an untagged scaffold —
    so the test `None in self.haplotypes_seen` on a dictionary of `str` keys is always False (the translator emits the constant `false`), and
    the `hap is None` filter of the message could not select anything either.  The model has no such error. -/
theorem check_painted_is_source (hs : List (Str × Bool)) :
    Gen.Imp.ChrNamer_check_for_painted_scaffolds_missing_haplotype_tag hs = .ok () :=
  check_painted_eq hs

/-- two haplotypes seen, one of them the text "None" of an untagged scaffold: no TaggingError -/
example : Gen.Imp.ChrNamer_check_for_painted_scaffolds_missing_haplotype_tag [(ibHap1, true), (PyRt.optStrText none, true)] = .ok () := by
  decide

/-! ### 3. `check_groups` -/

/-- `check_groups().errors` non-empty = the model's `groupsHaveErrors`, on well-formed groups none of which is without a scaffold.
    The source's two `mark_error` sites (`i == 0 and row_idx > 0` on an existing row: the first haplotype has a second original name;
    `row_idx == 0 and i == 0` on a missing one: the first haplotype has none) are the model's `firstSet.length ≥ 2` / `firstSet.isEmpty`
    — EXCEPT in a group where every haplotype is empty (`hnv` excludes it, see (a) above and the `example` below). -/
theorem check_groups_is_source (heap_b : List Scaffold) (heap_g : List PyRt.GData) (hs : List (Str × Bool)) (refs : List Nat)
    (hne : hs ≠ [])
    (hwf : ∀ r ∈ refs, CheckWf (hs.map (·.1)) (PyRt.gGet heap_g r))
    (hnv : ∀ r ∈ refs, NonVoid (PyRt.gGet heap_g r)) :
    Gen.Imp.ChrNamer_check_groups heap_b heap_g hs (some refs) = .ok (groupsHaveErrors (refs.map (absG ∘ PyRt.gGet heap_g))) :=
  check_groups_tie heap_b heap_g hs refs hne hwf hnv

/-- without `hnv`, exactly what the source computes: a group is in error when its first haplotype has two or more original names, or has
    none WHILE ANOTHER HAPLOTYPE HAS ONE (`srcGroupErr'`); no exception on well-formed groups -/
theorem check_groups_source_flag (heap_b : List Scaffold) (heap_g : List PyRt.GData) (hs : List (Str × Bool)) (refs : List Nat)
    (hne : hs ≠ []) (hwf : ∀ r ∈ refs, CheckWf (hs.map (·.1)) (PyRt.gGet heap_g r)) :
    Gen.Imp.ChrNamer_check_groups heap_b heap_g hs (some refs) = .ok (refs.any (fun r => srcGroupErr' (PyRt.gGet heap_g r))) :=
  check_groups_exact heap_b heap_g hs refs hne hwf

/-- `self.groups = None`: TypeError (`for grp in None`) -/
theorem check_groups_none_is_source (heap_b : List Scaffold) (heap_g : List PyRt.GData) (hs : List (Str × Bool)) :
    Gen.Imp.ChrNamer_check_groups heap_b heap_g hs none = .error .type :=
  check_groups_none heap_b heap_g hs

/-- the three groups of the running example are fine; a group with two Hap1 names, or with only a Hap2 scaffold, is an error -/
example : Gen.Imp.ChrNamer_check_groups ibHeapB (ibGroups.map conG) ibHs (some [0, 1, 2]) = .ok false := by decide
example : Gen.Imp.ChrNamer_check_groups ibHeapB [[(ibHap1, [(some ['S', '1'], [0]), (some ['S', '4'], [4])]), (ibHap2, [])]] ibHs (some [0])
    = .ok true := by decide
example : Gen.Imp.ChrNamer_check_groups ibHeapB [[(ibHap1, []), (ibHap2, [(some ['S', '2'], [1])])]] ibHs (some [0]) = .ok true := by decide
/-- THE DIFFERENCE (a): a group without any scaffold — the source marks nothing, the model reports the empty first haplotype -/
example : Gen.Imp.ChrNamer_check_groups ibHeapB [[(ibHap1, []), (ibHap2, [])]] ibHs (some [0]) = .ok false
    ∧ groupsHaveErrors [absG [(ibHap1, []), (ibHap2, [])]] = true := by decide

/-! ### 4. `build_groups` -/

/-- `build_groups()` with `self.groups = []` on entry (as `name_chromosomes` sets it), any arena `heap_g`:
    the model's exception when `buildGroups` raises (ValueError for a scaffold without `original_name`, KeyError / IndexError out of
    `original_tags_of_haplotype_scaffold`), ChrNamerError when `groupsHaveErrors`, and otherwise the arena EXTENDED by the model's groups
    (in creation order) with `self.groups` the references to them.
    Hypotheses: `haplotypes_seen` is a non-empty dictionary; at least one scaffold was added (difference (a)); every haplotype text of
    `self.scaffolds` is a key of `haplotypes_seen` (difference (b)).  No hypothesis on the scaffold references: `heap_b` is read with the
    model's default for a reference out of range on both sides. -/
theorem build_groups_is_source (heap_b : List Scaffold) (heap_g : List PyRt.GData) (hs : List (Str × Bool)) (entries : List (Str × Nat))
    (hne : hs ≠ []) (hnd : (hs.map (·.1)).Nodup) (hent : entries ≠ []) (hkeys : ∀ e ∈ entries, e.1 ∈ hs.map (·.1)) :
    Gen.Imp.ChrNamer_build_groups heap_b heap_g (some []) hs entries =
      match buildGroups heap_b (hs.map (·.1)) entries with
      | .error e => .error e
      | .ok gs =>
        if groupsHaveErrors gs = true then .error .chrNamer
        else .ok (heap_g ++ gs.map conG, some (List.range' heap_g.length gs.length)) :=
  build_groups_tie heap_b heap_g hs entries hne hnd hent hkeys

/-- the result of `build_groups_is_source` read back: `self.groups`, through the new arena and the abstraction, IS the model's list -/
theorem build_groups_result_abs (heap_g : List PyRt.GData) (gs : List GroupData) :
    (List.range' heap_g.length gs.length).map (absG ∘ PyRt.gGet (heap_g ++ gs.map conG)) = gs :=
  result_abs heap_g gs

/-- THE DIFFERENCE (a) through `build_groups`: `self.scaffolds = []` with a non-empty `haplotypes_seen` -/
theorem build_groups_no_entries_differs (heap_b : List Scaffold) (heap_g : List PyRt.GData) (hs : List (Str × Bool))
    (hne : hs ≠ []) (hnd : (hs.map (·.1)).Nodup) :
    Gen.Imp.ChrNamer_build_groups heap_b heap_g (some []) hs [] = .ok (heap_g ++ [conG (newGroup (hs.map (·.1)))], some [heap_g.length]) ∧
    (buildGroups heap_b (hs.map (·.1)) [] >>= fun gs => if groupsHaveErrors gs = true then throw Err.chrNamer else pure gs)
      = .error .chrNamer := by
  rw [conG_newGroup]; exact build_groups_no_entries heap_b heap_g hs hne hnd

/-- the hypotheses hold of the running example, which makes three groups (a second Hap1 scaffold; a Singleton) in an arena that already
    holds one object -/
example : ibHs ≠ [] ∧ (ibHs.map (·.1)).Nodup ∧ ibEntries ≠ [] ∧ ∀ e ∈ ibEntries, e.1 ∈ ibHs.map (·.1) := by decide
example : Gen.Imp.ChrNamer_build_groups ibHeapB [[]] (some []) ibHs ibEntries = .ok ([] :: ibGroups.map conG, some [1, 2, 3]) := rfl
example : buildGroups ibHeapB (ibHs.map (·.1)) ibEntries = .ok ibGroups ∧ groupsHaveErrors ibGroups = false := ⟨rfl, rfl⟩
/-- ChrNamerError: two consecutive Hap1 scaffolds with different original names, the first not a Singleton -/
example : Gen.Imp.ChrNamer_build_groups ibHeapB [] (some []) ibHs [(ibHap1, 0), (ibHap1, 4)] = .error .chrNamer := rfl
/-- ValueError first: a reference to a scaffold without `original_name` (here: out of the arena) -/
example : Gen.Imp.ChrNamer_build_groups ibHeapB [] (some []) ibHs [(ibHap1, 0), (ibHap1, 4), (ibHap2, 9)] = .error .value := rfl
/-- THE DIFFERENCE (b): a haplotype text that is not a key -/
example : Gen.Imp.ChrNamer_build_groups ibHeapB [] (some []) [(ibHap1, true)] [(ibHap2, 0)] = .error .attribute
    ∧ buildGroups ibHeapB [ibHap1] [(ibHap2, 0)] = .ok [[(ibHap1, []), (ibHap2, [(['S', '1'], [0])])]] := ⟨rfl, rfl⟩
/-- THE DIFFERENCE (a) -/
example : Gen.Imp.ChrNamer_build_groups ibHeapB [] (some []) ibHs [] = .ok ([[(ibHap1, []), (ibHap2, [])]], some [0])
    ∧ groupsHaveErrors [newGroup (ibHs.map (·.1))] = true := ⟨rfl, rfl⟩

end AgpTpf.C10
