/-
  C02 (end-to-end, maps that cut DEEP INSIDE contigs) — extends `Properties/C02Aligned.lean`.

  Python: `BuildAssembly.remap_to_input_assembly`, `find_assembly_overlaps`, `discard_overhanging_fragments`,
  `cut_remaining_overlaps` / `cut_fragments`, `add_missing_scaffolds_from_input`, `scaffolds_fused_by_name`,
  `assemblies_with_scaffolds_fused` (build_assembly.py); `OverhangResolver`, `OverhangPremise` (build_utils.py);
  `OverlapResult.trim_large_overhangs / trim_fragment` (overlap_result.py).  Helpers: `Proofs/C02D*.lean`.

  CLASS — `DeepCut input ptx err` (`Proofs/C02DHyp.lean`; Bool checker `deepCutB`, `deepCut_of_check`), stated like
  `Aligned` on the lookup results `pieceO input p` of the pieces (untagged, unpainted Pretext scaffolds):
    * `names`, `lens`  input scaffold names pairwise different; no row of negative length;
    * `oids`           no input scaffold holds the same Fragment object twice (`trim_fragment` finds its row by identity);
    * `errPos`         `1 ≤ err` (`err = 1 + ⌊bp per texel⌋`);
    * `scaffolds`      every Pretext scaffold begins with a fragment row whose name is not shaped `<hap>_…_<digits>`; every
                       piece `p` has a lookup result, no tags, `p.start ≤ p.stop`, and each terminal row of the result
                       sticks out by `≤ err` or shares `≥ err` bases with `p` (nothing for `trim_large_overhangs` to discard);
    * `two`            every contig claimed more than once is claimed by exactly TWO pieces (one cut per contig)
                       — `sharedKeys` = the keys `find_assembly_overlaps` puts into `multi_scaffold_fragments`, in that
                       order; `holdersOf k` = the ids of the results holding `k` (spec: `shared_keys_spec`, `holders_spec`);
    * `sitesOk`        for each such contig `F` (`Site`: pieces `a`, `b`): `F` is the LAST row of `a`'s result and the FIRST
                       row of `b`'s; the pieces abut — `a` ends at `c`, `b` begins at `c + 1` (a PretextView cut); both
                       results place `F` at the same scaffold coordinates; each piece shares MORE THAN `3·err` bases with
                       `F` (the cut is deeper than the margin), or lies wholly inside `F` (single-row result) and shares
                       `≥ err` bases; `F` is a forward or reverse contig;
    * `unclaimed`      contigs claimed by no piece carry no tags and have names not shaped `<hap>_…_<digits>`.
  `NoClashDeep`: the names of the fused scaffolds are pairwise different (as `NoClash` for aligned maps).

  FULL CLASS — `DeepCutN input ptx err` (`Proofs/C02DNHyp.lean`; checker `deepCutNB`, `deepCutN_of_check`): the clauses of
  `DeepCut` without `two`: a contig may be cut ANY number of times.  The holders of a shared contig, sorted by where their
  baits begin, form its `chain` (`SiteN`, `sitesN`, `site_of_n_def`); EVERY TWO CONSECUTIVE holders `a`, `b` of a chain
  must satisfy the site conditions `SiteOk` listed above (`ChainOk`): one PretextView cut each.  (The holders in the
  middle of a chain then lie wholly inside the contig.)

  PROVED
    `deep_map_rearranges`          FULL STRENGTH for the untagged / unpainted class, forward and reverse contigs, any
                                   number of cuts per contig: `remap = .ok (primaryOnly (expectedScaffoldsDeepN …), stats)`,
                                   `stats.cuts = (piece, shared contig) incidences − shared contigs`.
    `remap_to_input_deep_full`     the build for that class: `store = expectedStoreDeepN` (`cutPieceN`), no error.
    `remap_to_input_deep`,
    `deep_map_rearranges_partial`  the same for `DeepCut` (one cut per contig), with the simpler specification functions
                                   `sites` / `cutPiece` (pairs instead of chains); kept because `deep_cut_position` is stated
                                   for it.
    `deep_cut_position`            the cut is exactly where the Pretext coordinate designates: the contig `name:s..e` at
                                   scaffold coordinates `cs..ce`, cut by `c | c+1`, becomes `name:s..s+(c−cs)` (last row of
                                   piece `a`) and `name:s+(c−cs)+1..e` (first row of piece `b`); mirrored for a reverse
                                   contig: `name:e−(c−cs)..e` and `name:s..e−(c−cs)−1`.  (Stated for `DeepCut`; for
                                   `DeepCutN` the same arithmetic is in `cutPieceN` — `cut_piece_n_def` — and is evaluated
                                   on a contig cut twice below.)
    `cut_fragments_chain`, `qc_accepts_chain`   `cut_fragments` for any number of holders; the QC accepts `n` abutting pieces.
    `resolver_idle`                `discard_overhanging_fragments` changes nothing on these maps.
  NOT COVERED (restriction of the class, not a `_partial` proof): tagged / painted pieces.
-/
import AgpTpf.Proofs.C02DCheck
import AgpTpf.Proofs.C02DPos
import AgpTpf.Proofs.C02DRegSpec
import AgpTpf.Proofs.C02DChain
import AgpTpf.Proofs.C02DNCheck
namespace AgpTpf.C02
open AgpTpf

/-! ## the specification functions, unfolded -/

/-- cutting at the scaffold-left side of a contig, in contig coordinates: a forward contig loses its first `d` bases, a
    reverse contig its last `d` bases; the new Fragment is tagged `Cut` -/
theorem cut_frag_start_def (F : Fragment) (d : Int) (oid : Nat) :
    cutFragStart F d oid =
      { oid := oid, name := F.name, start := if F.strand = 1 then F.start + d else F.start,
        stop := if F.strand = 1 then F.stop else F.stop - d, strand := F.strand, tags := ["Cut".toList] } := rfl

/-- cutting at the scaffold-right side: a forward contig loses its last `d` bases, a reverse contig its first `d` -/
theorem cut_frag_end_def (F : Fragment) (d : Int) (oid : Nat) :
    cutFragEnd F d oid =
      { oid := oid, name := F.name, start := if F.strand = 1 then F.start else F.start + d,
        stop := if F.strand = 1 then F.stop - d else F.stop, strand := F.strand, tags := ["Cut".toList] } := rfl

/-- a result whose first row `F` is shared with the piece in front: it then begins where the bait begins, and `F` loses the
    `bait.start − start` bases in front of the bait -/
theorem trim_start_spec_def (oid : Nat) (o : OverlapResult) (F : Fragment) (r : List Row) (h : o.rows = .frag F :: r) :
    trimStartSpec oid o =
      { o with start := o.bait.start, rows := .frag (cutFragStart F (o.bait.start - o.start) oid) :: r } := by
  unfold trimStartSpec; rw [h]

/-- a result whose last row `F` is shared with the piece behind: it then ends where the bait ends -/
theorem trim_end_spec_def (oid : Nat) (o : OverlapResult) (F : Fragment) (t : List Row) (h : o.rows = t ++ [.frag F]) :
    trimEndSpec oid o =
      { o with stop := o.bait.stop, rows := t ++ [.frag (cutFragEnd F (o.stop - o.bait.stop) oid)] } := by
  unfold trimEndSpec; rw [h]; simp

/-- the lookup result of piece number `i` after cutting: start cut iff the piece is the `b` of a site, end cut iff it is
    the `a` of a site (`startCutIn` / `endCutIn` look the piece up in the numbered site list and return the new object id) -/
theorem cut_piece_def (input ptx : List Scaffold) (i : Nat) (p : Fragment) :
    cutPiece input ptx i p =
      (let o1 := match startCutIn (oid0 input) (sites input ptx).zipIdx i with
         | some oid => trimStartSpec oid (pieceO input p)
         | none => pieceO input p
       match endCutIn (oid0 input) (sites input ptx).zipIdx i with
         | some oid => trimEndSpec oid o1
         | none => o1) := rfl

theorem expected_scaffolds_deep_def (input ptx : List Scaffold) (jg : Gap) :
    expectedScaffoldsDeep input ptx jg =
      (groupsFrom 0 ptx).map (fun g =>
        ({ name := outName g.1,
           rows := g.2.foldl (fun built q =>
             Scaffold.appendRows built (cutPiece input ptx q.2 q.1).toScaffoldRows (some jg)) [],
           rank := 3, originalName := some g.1.name, originalTags := some [] } : Scaffold)) ++
      (input.filterMap (leftoverEntry (claimedKeys input ptx) jg)).map (·.1) := rfl

/-- `groupsFrom 0 ptx`: every Pretext scaffold with its pieces numbered consecutively through the whole map -/
theorem groups_from_def (n : Nat) (S : Scaffold) (r : List Scaffold) :
    groupsFrom n [] = [] ∧
    groupsFrom n (S :: r) = (S, S.fragments.zipIdx n) :: groupsFrom (n + S.fragments.length) r := ⟨rfl, rfl⟩

/-- a registered key is a claimed key; `sharedKeys` has no duplicates -/
theorem registered_iff_claimed (input ptx : List Scaffold) (k : Key) :
    dHas (regOf input ptx).1 k = (claimedKeys input ptx).contains k := regOf_has input ptx k

theorem shared_keys_nodup (input ptx : List Scaffold) : (sharedKeys input ptx).Nodup := (regOf_ok input ptx).multiNodup

/-- `holdersOf k`: for every piece, in Pretext order, its number — once per occurrence of `k` among the contigs of its
    lookup result; as many as `k` is claimed -/
theorem holders_spec (input ptx : List Scaffold) (k : Key) :
    holdersOf input ptx k =
      (allPieces ptx).zipIdx.flatMap (fun x => List.replicate ((pieceKeys input x.1.2).count k) x.2) ∧
    (holdersOf input ptx k).length = (claimedKeys input ptx).count k :=
  ⟨holdersOf_spec input ptx k, holdersOf_length input ptx k⟩

/-- `sharedKeys`: exactly the contigs claimed at least twice (so clause `two` of `DeepCut` says: exactly twice) -/
theorem shared_keys_spec (input ptx : List Scaffold) (k : Key) :
    k ∈ sharedKeys input ptx ↔ 2 ≤ (claimedKeys input ptx).count k := by
  rw [sharedKeys_spec, holdersOf_length]

/-- the site of a shared key `k` held by the pieces `s < t` (Pretext order): key, the registered Fragment object, and the
    two pieces ordered so that `a` is the one whose bait ends where the other's begins -/
theorem site_of_def (ptx : List Scaffold) (found : List (Key × Found)) (k : Key) (fnd : Found) (s t : Nat)
    (h : dGet? found k = some fnd) (hst : fnd.scaffolds = [s, t]) :
    siteOf ptx found k =
      if (pieceAt ptx s).2.stop + 1 = (pieceAt ptx t).2.start then ⟨k, fnd.fragment, s, t⟩ else ⟨k, fnd.fragment, t, s⟩ := by
  unfold siteOf; rw [h]; simp only [hst]

/-! ## the build -/

/-- **`remap_to_input_assembly` on a deep-cut map** -/
theorem remap_to_input_deep (input ptx : List Scaffold) (prefix_ : Str) (jg : Gap) (err : Int)
    (hd : DeepCut input ptx err) :
    ∃ b, remapToInput input ptx prefix_ (some jg) err = .ok b ∧
      b.store = expectedStoreDeep input ptx ∧
      b.extra = expectedExtra (claimedKeys input ptx) jg input ∧
      b.multi = [] ∧ b.cuts = (sites input ptx).length ∧ b.joinGap = some jg ∧ b.namer.autosomePrefix = prefix_ :=
  remapToInput_deep input ptx prefix_ jg err hd

/-- what is stored for piece `p` (number `i`) of Pretext scaffold `S`: `cutPiece`, labelled as for aligned maps -/
theorem expected_store_deep_def (input ptx : List Scaffold) :
    expectedStoreDeep input ptx =
      (allPieces ptx).zipIdx.map (fun x => ({ o := labelled x.1.1 (cutPiece input ptx x.2 x.1.2), added := true } : Res)) := by
  unfold expectedStoreDeep storeDeepIn
  apply List.map_congr_left
  intro x _
  unfold resDeepIn
  rw [cutO_labelled]
  rfl

/-- the resolver has nothing to do on such a map (`discard_overhanging_fragments` returns the build unchanged) -/
theorem resolver_idle {input ptx : List Scaffold} {err : Int} (hd : DeepCut input ptx err) (b : Build)
    (hstore : b.store = expectedStore input ptx) (hfound : b.found = (regOf input ptx).1)
    (hmulti : b.multi = sharedKeys input ptx) (herr : b.err = err) (fuel : Nat) :
    discardOverhanging (fuel + 1) b = .ok b :=
  discardOverhanging_deep hd b hstore hfound hmulti herr fuel

/-! ## the output -/

/-- number of (piece, shared contig) incidences -/
def incidences (input ptx : List Scaffold) : Nat :=
  ((sharedKeys input ptx).map (fun k => (holdersOf input ptx k).length)).sum

theorem sum_map_two {α} (f : α → Nat) (l : List α) (h : ∀ a ∈ l, f a = 2) : (l.map f).sum = 2 * l.length := by
  induction l with
  | nil => rfl
  | cons a t ih =>
    simp only [List.map_cons, List.sum_cons, List.length_cons, h a (by simp), ih (fun x hx => h x (by simp [hx]))]
    omega

theorem cuts_count {input ptx : List Scaffold} {err : Int} (hd : DeepCut input ptx err) :
    ((sites input ptx).length : Int) = (incidences input ptx : Int) - ((sharedKeys input ptx).length : Int) := by
  have h : incidences input ptx = 2 * (sharedKeys input ptx).length := by
    unfold incidences
    apply sum_map_two
    intro k hk
    obtain ⟨s, t, hst⟩ := hd.two k hk
    rw [hst]; rfl
  have h2 : (sites input ptx).length = (sharedKeys input ptx).length := by simp [sites]
  omega

/-- **C02, maps cutting deep inside contigs — the special case of `deep_map_rearranges` below in which each contig is
    shared by at most two pieces (clause `two` of `DeepCut`)**, with the simpler specification `sites` / `cutPiece`.

    `remap` does not fail; it returns one primary, curated assembly whose scaffolds are, in `smart_sort_scaffolds` order,
    `expectedScaffoldsDeep input ptx jg`: for every Pretext scaffold the rows of its pieces in Pretext order — each piece
    its lookup result with the shared terminal contigs cut at the bait (`cutPiece`), reversed with strands negated iff the
    piece is on the minus strand, the join gap between consecutive pieces — followed by the left-over scaffolds; the
    statistics count one cut per shared contig. -/
theorem deep_map_rearranges_partial (input ptx : List Scaffold) (prefix_ : Str) (jg : Gap) (err : Int)
    (hd : DeepCut input ptx err) (hnc : NoClashDeep input ptx jg)
    (hstr : ∀ sc ∈ input, ∀ f ∈ sc.fragments, f.strand = 1 ∨ f.strand = -1) :
    ∃ stats, remap input ptx prefix_ (some jg) err = .ok (primaryOnly (expectedScaffoldsDeep input ptx jg), stats) ∧
      stats.cuts = (incidences input ptx : Int) - ((sharedKeys input ptx).length : Int) := by
  obtain ⟨st, h1, h2⟩ := remap_deep input ptx prefix_ jg err hd hnc hstr
  exact ⟨st, h1, by rw [h2]; exact cuts_count hd⟩

/-! ## the full class: any number of cuts per contig -/

/-- the chain of a shared contig: its holders sorted (stably) by where their baits begin -/
theorem site_of_n_def (ptx : List Scaffold) (found : List (Key × Found)) (k : Key) (fnd : Found)
    (h : dGet? found k = some fnd) :
    siteOfN ptx found k = ⟨k, fnd.fragment, sortByIntKey (fun s => (pieceAt ptx s).2.start) fnd.scaffolds⟩ := by
  unfold siteOfN; rw [h]

/-- `DeepCutN`: the base clauses, and every two consecutive holders of every chain form a cut site -/
theorem deep_cut_n_def (input ptx : List Scaffold) (err : Int) :
    DeepCutN input ptx err ↔
      DeepBase input ptx err ∧
      ∀ x ∈ sitesN input ptx, Adj (fun a b => SiteOk input ptx err ⟨x.key, x.frag, a, b⟩) x.chain :=
  ⟨fun h => ⟨h.base, h.chains⟩, fun h => ⟨h.1, h.2⟩⟩

/-- the start of result `i` is cut iff `i` stands in some chain but not first, its end iff not last; the new Fragment of
    the holder at chain position `p` gets object id `oid0 + (ids used by earlier chains) + p` for a forward contig and
    `… + (len − 1 − p)` for a reverse one (holders are visited in contig order); a holder in the middle of a chain is cut
    at both ends into ONE new Fragment -/
theorem cut_piece_n_def (input ptx : List Scaffold) (i : Nat) (p : Fragment) :
    cutPieceN input ptx i p =
      (let l := withOffsets 0 (sitesN input ptx)
       let o1 := match startCutN (oid0 input) l i with
         | some oid => trimStartSpec oid (pieceO input p)
         | none => pieceO input p
       match endCutN (oid0 input) l i with
         | some oid => trimEndSpec oid o1
         | none => o1) := rfl

theorem start_end_cut_n_def (base : Nat) (l : List (SiteN × Nat)) (i : Nat) :
    startCutN base l i = l.findSome? (fun y =>
      if 0 < y.1.chain.idxOf i ∧ y.1.chain.idxOf i < y.1.chain.length then some (oidAt base y (y.1.chain.idxOf i)) else none) ∧
    endCutN base l i = l.findSome? (fun y =>
      if y.1.chain.idxOf i + 1 < y.1.chain.length then some (oidAt base y (y.1.chain.idxOf i)) else none) ∧
    (∀ y p, oidAt base y p = base + y.2 + (if y.1.frag.strand = 1 then p else y.1.chain.length - 1 - p)) :=
  ⟨rfl, rfl, fun _ _ => rfl⟩

/-- **`remap_to_input_assembly` on a deep-cut map, any number of cuts per contig** -/
theorem remap_to_input_deep_full (input ptx : List Scaffold) (prefix_ : Str) (jg : Gap) (err : Int)
    (hd : DeepCutN input ptx err) :
    ∃ b, remapToInput input ptx prefix_ (some jg) err = .ok b ∧
      b.store = expectedStoreDeepN input ptx ∧
      b.extra = expectedExtra (claimedKeys input ptx) jg input ∧
      b.multi = [] ∧ b.cuts = cutsN input ptx ∧ b.joinGap = some jg ∧ b.namer.autosomePrefix = prefix_ :=
  remapToInput_deepN input ptx prefix_ jg err hd

/-- **C02, maps that cut deep inside contigs — full strength for untagged / unpainted maps.**
    `remap` does not fail; it returns one primary, curated assembly whose scaffolds are, in `smart_sort_scaffolds` order,
    `expectedScaffoldsDeepN input ptx jg`: for every Pretext scaffold the rows of its pieces in Pretext order — each piece
    its lookup result with the shared terminal contigs cut at the bait (`cutPieceN`: by plain arithmetic on the bait
    coordinates, `trimStartSpec` / `trimEndSpec`), reversed with strands negated iff the piece is on the minus strand, the
    join gap between consecutive pieces — followed by the left-over scaffolds; `stats.cuts` is the number of (piece,
    shared contig) incidences minus the number of shared contigs. -/
theorem deep_map_rearranges (input ptx : List Scaffold) (prefix_ : Str) (jg : Gap) (err : Int)
    (hd : DeepCutN input ptx err) (hnc : NoClashDeepN input ptx jg)
    (hstr : ∀ sc ∈ input, ∀ f ∈ sc.fragments, f.strand = 1 ∨ f.strand = -1) :
    ∃ stats, remap input ptx prefix_ (some jg) err = .ok (primaryOnly (expectedScaffoldsDeepN input ptx jg), stats) ∧
      stats.cuts = (incidencesN input ptx : Int) - ((sharedKeys input ptx).length : Int) := by
  obtain ⟨st, h1, h2⟩ := remap_deepN input ptx prefix_ jg err hd hnc hstr
  exact ⟨st, h1, by rw [h2]; exact cutsN_eq input ptx⟩

theorem expected_scaffolds_deep_n_def (input ptx : List Scaffold) (jg : Gap) :
    expectedScaffoldsDeepN input ptx jg =
      (groupsFrom 0 ptx).map (fun g =>
        ({ name := outName g.1,
           rows := g.2.foldl (fun built q =>
             Scaffold.appendRows built (cutPieceN input ptx q.2 q.1).toScaffoldRows (some jg)) [],
           rank := 3, originalName := some g.1.name, originalTags := some [] } : Scaffold)) ++
      (input.filterMap (leftoverEntry (claimedKeys input ptx) jg)).map (·.1) := rfl

/-- the number of (piece, shared contig) incidences -/
theorem incidences_n_def (input ptx : List Scaffold) :
    incidencesN input ptx = ((sharedKeys input ptx).map (fun k => (holdersOf input ptx k).length)).sum := rfl

/-! ## where the cut falls -/

/-- **A cut deeper than the margin splits the contig exactly at the position the Pretext coordinate designates.**
    Site `x`: contig `F = name:s..e`; piece `a` ends at scaffold coordinate `c`, piece `b` begins at `c + 1`; the contig
    occupies scaffold coordinates `cs..ce` (`cs ≤ c < ce`, `ce − cs = e − s`).  After the remap the LAST row of piece `a`
    is `fa` and the FIRST row of piece `b` is `fb`, both tagged `Cut`, with
      forward contig:  `fa = name:s..s+(c−cs)`,     `fb = name:s+(c−cs)+1..e`;
      reverse contig:  `fa = name:e−(c−cs)..e`,     `fb = name:s..e−(c−cs)−1`
    (a reverse contig's LAST bases lie at the scaffold-left side). -/
theorem deep_cut_position {input ptx : List Scaffold} {err : Int} (hd : DeepCut input ptx err) (x : Site)
    (hx : x ∈ sites input ptx) :
    let pa := (pieceAt ptx x.a).2
    let pb := (pieceAt ptx x.b).2
    let c := pa.stop
    let cs := (pieceO input pb).start
    let ce := (pieceO input pa).stop
    pb.start = c + 1 ∧ cs ≤ c ∧ c < ce ∧ ce - cs = x.frag.stop - x.frag.start ∧
    ∃ fa fb ta rb, (cutPiece input ptx x.a pa).rows = ta ++ [.frag fa] ∧ (cutPiece input ptx x.b pb).rows = .frag fb :: rb ∧
      fa.name = x.frag.name ∧ fb.name = x.frag.name ∧ fa.strand = x.frag.strand ∧ fb.strand = x.frag.strand ∧
      fa.tags = ["Cut".toList] ∧ fb.tags = ["Cut".toList] ∧
      (x.frag.strand = 1 → fa.start = x.frag.start ∧ fa.stop = x.frag.start + (c - cs) ∧
        fb.start = x.frag.start + (c - cs) + 1 ∧ fb.stop = x.frag.stop) ∧
      (x.frag.strand = -1 → fa.start = x.frag.stop - (c - cs) ∧ fa.stop = x.frag.stop ∧
        fb.start = x.frag.start ∧ fb.stop = x.frag.stop - (c - cs) - 1) := by
  intro pa pb c cs ce
  simp only [pa, pb, c, cs, ce]
  have hok := hd.sitesOk x hx
  obtain ⟨hda, hdb, hsum⟩ := site_arith hd.base x hok
  obtain ⟨⟨ta, e, hra⟩, ⟨rb, s, hrb⟩⟩ := cut_rows_of_site hd x hx
  have habut := hok.abut
  have hl : x.frag.length = x.frag.stop - x.frag.start + 1 := rfl
  refine ⟨by omega, by omega, by omega, by omega, _, _, ta, rb, hra, hrb, rfl, rfl, rfl, rfl, rfl, rfl, ?_, ?_⟩
  · intro h1
    refine ⟨?_, ?_, ?_, ?_⟩ <;> simp only [cutFragEnd, cutFragStart, h1, if_true] <;> omega
  · intro h1
    have hn : ¬ (x.frag.strand = 1) := by omega
    refine ⟨?_, ?_, ?_, ?_⟩ <;> simp only [cutFragEnd, cutFragStart, hn, if_false] <;> omega

/-- every (cut) piece is one contiguous run of the rows of its Pretext scaffold's output: `toScaffoldRows` — the rows of
    `cutPiece`, reversed with strands negated iff the piece is on the minus strand -/
theorem cut_piece_is_contiguous_run (input ptx : List Scaffold) (jg : Gap) (g : Scaffold × List (Fragment × Nat))
    (q : Fragment × Nat) (hq : q ∈ g.2) :
    (cutPiece input ptx q.2 q.1).toScaffoldRows <:+: (pretextOutDeep input ptx jg g).rows ∧
    (cutPiece input ptx q.2 q.1).bait = (pieceO input q.1).bait :=
  ⟨cut_piece_infix input ptx jg g.2 q hq, cutO_bait _ _ _⟩

/-! ## the ingredient for more than one cut per contig -/

/-- **`cut_fragments` for a contig with ANY number of holders** (the mechanism behind `deep_map_rearranges`).
    `T` lists, in visiting order, each holder's id, the result and the new Fragment `trim_fragment` makes of it.  If
    * the ids arranged like that are a permutation of the registered holder list with strictly increasing
      `fragment_start_if_trimmed` (so this IS the visiting order),
    * `trim_fragment` succeeds on the `j`-th with `(keep_start, keep_end) = cutFlags strand j (len − 1)` and object id
      `nextOid + j`,
    * the new Fragments form a chain `Adj Follows'` — same contig name, each non-empty, each beginning one base after its
      predecessor ends — from the contig's first base to its last,
    then `cut_fragments` succeeds (the QC passes), every holder gets its trimmed result, `len − 1` cuts are counted and
    `len` object ids are used. -/
theorem cut_fragments_chain (b : Build) (fnd : Found) (T : List (Nat × OverlapResult × Fragment)) (κ : Nat → Int)
    (hκ : ∀ h ∈ fnd.scaffolds, (getRes b.store h).fragmentStartIfTrimmed fnd.fragment = .ok (κ h))
    (hperm : (T.map (·.1)).Perm fnd.scaffolds) (hsorted : (T.map (·.1)).Pairwise (fun a c => κ a < κ c))
    (htrim : ∀ j t, T[j]? = some t →
      (b.store.getD t.1 default).o.trimFragment fnd.fragment (cutFlags fnd.fragment.strand j (T.length - 1)).1
        (cutFlags fnd.fragment.strand j (T.length - 1)).2 (b.nextOid + j) = .ok (t.2.1, t.2.2))
    (x : Fragment) (ts : List Fragment) (hnews : T.map (·.2.2) = x :: ts) (hadj : Adj Follows' (x :: ts))
    (hstart : x.start = fnd.fragment.start) (hstop : ((x :: ts).getLast (by simp)).stop = fnd.fragment.stop) :
    cutFragments b fnd = .ok { applyCuts b T with cuts := b.cuts + ((T.length : Int) - 1) } :=
  cutFragments_chain b fnd T κ hκ hperm hsorted htrim x ts hnews hadj hstart hstop

theorem apply_cuts_def (b : Build) (T : List (Nat × OverlapResult × Fragment)) :
    applyCuts b T =
      { b with store := T.foldl (fun st t => setAt st t.1 { st.getD t.1 default with o := t.2.1 }) b.store,
               nextOid := b.nextOid + T.length } := rfl

theorem adj_follows_def (a c : Fragment) (t : List Fragment) :
    (Adj Follows' (a :: c :: t) ↔
      (a.name = c.name ∧ a.start ≤ a.stop ∧ c.start ≤ c.stop ∧ a.stop + 1 = c.start) ∧ Adj Follows' (c :: t)) ∧
    Adj Follows' [a] := ⟨Iff.rfl, trivial⟩

/-- the QC of `n` abutting pieces tiling the contig passes (the converse of C01 `qc_tiles`) -/
theorem qc_accepts_chain (F x : Fragment) (t : List Fragment) (hadj : Adj Follows' (x :: t)) (hstart : x.start = F.start)
    (hstop : ((x :: t).getLast (by simp)).stop = F.stop) : qcPasses F (x :: t) = true :=
  qc_chain F x t hadj hstart hstop

/-! ## non-vacuity: one forward and one reverse contig cut deep inside, pieces swapped and reversed -/

private def g10 : Gap := { length := 10, gapType := "scaffold".toList }
private def g5 : Gap := { length := 5, gapType := "scaffold".toList }
private def jg : Gap := { length := 200, gapType := "scaffold".toList }
private def a1 : Fragment := { oid := 1, name := "ctgA1".toList, start := 1, stop := 100, strand := 1 }
private def a2 : Fragment := { oid := 2, name := "ctgA2".toList, start := 1, stop := 80, strand := -1 }
private def a3 : Fragment := { oid := 3, name := "ctgA3".toList, start := 1, stop := 40, strand := 1 }
private def b1 : Fragment := { oid := 4, name := "ctgB1".toList, start := 1, stop := 80, strand := 1 }
private def b2 : Fragment := { oid := 5, name := "ctgB2".toList, start := 1, stop := 60, strand := 1 }
/-- 240 bp: a1 1-100, gap, a2 111-190 (reverse contig), gap, a3 201-240 -/
private def sA : Scaffold := { name := "scaffold_1".toList, rows := [.frag a1, .gap g10, .frag a2, .gap g10, .frag a3] }
/-- 145 bp: b1 1-80, gap, b2 86-145 -/
private def sB : Scaffold := { name := "scaffold_2".toList, rows := [.frag b1, .gap g5, .frag b2] }
private def inp : List Scaffold := [sA, sB]
private def pc (n : Str) (s e st : Int) : Row := .frag { name := n, start := s, stop := e, strand := st }
/-- texel 8 bp (`err = 9`, margin 27).  `scaffold_1` is cut at 48 | 49 — inside the forward contig a1, 48 resp. 52 bases from
    its ends — and at 150 | 151 — inside the reverse contig a2 (111..190), 40 bases from either end; `scaffold_2` is cut at
    82 | 83, inside its gap.  The middle piece of `scaffold_1` is reversed and put in front of the head of `scaffold_2`; the
    tail of `scaffold_2` is followed by the tail of `scaffold_1` and the reversed head of `scaffold_1`. -/
private def ptx : List Scaffold :=
  [{ name := "Scaffold_1".toList, rows := [pc sA.name 49 150 (-1), .gap jg, pc sB.name 1 82 1] },
   { name := "Scaffold_2".toList,
     rows := [pc sB.name 83 145 1, .gap jg, pc sA.name 151 240 1, .gap jg, pc sA.name 1 48 (-1)] }]

example : DeepCut inp ptx 9 := deepCut_of_check _ _ _ (by decide +kernel)
example : NoClashDeep inp ptx jg := by unfold NoClashDeep; decide +kernel
example : ∀ sc ∈ inp, ∀ f ∈ sc.fragments, f.strand = 1 ∨ f.strand = -1 := by decide

/-- the two cut sites, in the order `cut_remaining_overlaps` visits them: the reverse contig a2 (piece 0 ends in it, piece
    3 begins in it), then the forward contig a1 (piece 4 ends in it, piece 0 begins in it) -/
example : sites inp ptx = [⟨a2.keyTuple, a2, 0, 3⟩, ⟨a1.keyTuple, a1, 4, 0⟩] := by decide +kernel

private def cut (f : Fragment) (oid : Nat) (s e : Int) : Fragment := { f with oid := oid, start := s, stop := e, tags := ["Cut".toList] }

/-- the specification, evaluated.  a1 (forward, at 1..100, cut 48 | 49) becomes `ctgA1:1-48` and `ctgA1:49-100`;
    a2 (reverse, at 111..190, cut 150 | 151: 40 scaffold positions on either side) becomes `ctgA2:41-80` (the part at
    111..150) and `ctgA2:1-40` (the part at 151..190).  Object ids 6, 7 (site 0: reverse contig, piece `b` first) and 8, 9. -/
example : (expectedScaffoldsDeep inp ptx jg).map (fun s => (s.name, s.rows)) =
    [(sA.name, [.frag (cut a2 7 41 80).reverse, .gap g10, .frag (cut a1 9 49 100).reverse, .gap jg, .frag b1]),
     (sB.name, [.frag b2, .gap jg, .frag (cut a2 6 1 40), .gap g10, .frag a3, .gap jg, .frag (cut a1 8 1 48).reverse])] := by
  decide +kernel

/-- … and `remap` evaluated by the kernel, independently of the theorems, returns exactly the specified output, 2 cuts -/
example : (remap inp ptx "SUPER_".toList (some jg) 9).toOption.map (·.1) =
    some (primaryOnly (expectedScaffoldsDeep inp ptx jg)) := by decide +kernel

example : (remap inp ptx "SUPER_".toList (some jg) 9).toOption.map (fun r => r.2.cuts) = some 2 := by decide +kernel
example : incidences inp ptx = 4 ∧ (sharedKeys inp ptx).length = 2 := by decide +kernel

/-- `deep_cut_position` on the two sites: a1 at `cs..ce = 1..100`, `c = 48`; a2 (reverse) at `111..190`, `c = 150` -/
example : (cutPiece inp ptx 4 (pieceAt ptx 4).2).rows.getLast? = some (.frag (cut a1 8 1 48)) ∧
    (cutPiece inp ptx 0 (pieceAt ptx 0).2).rows.head? = some (.frag (cut a1 9 49 100)) ∧
    (cutPiece inp ptx 0 (pieceAt ptx 0).2).rows.getLast? = some (.frag (cut a2 7 41 80)) ∧
    (cutPiece inp ptx 3 (pieceAt ptx 3).2).rows.head? = some (.frag (cut a2 6 1 40)) := by decide +kernel

/-! ## non-vacuity of `cut_fragments_chain`: a forward contig held by three results (cuts 30 | 31 and 70 | 71) -/

private def fa : Fragment := { oid := 1, name := "a".toList, start := 1, stop := 100, strand := 1 }
private def oQ (s e : Int) : OverlapResult :=
  { bait := { name := "s".toList, start := s, stop := e, strand := 1 }, start := 1, stop := 100, rows := [.frag fa],
    name := "matches".toList }
private def bQ : Build :=
  { namer := { autosomePrefix := [] }, nextOid := 20, joinGap := none, err := 9,
    store := [{ o := oQ 31 70, added := true }, { o := oQ 1 30, added := true }, { o := oQ 71 100, added := true }] }
private def fndQ : Found := { fragment := fa, scaffolds := [0, 1, 2] }
private def newQ (oid : Nat) (s e : Int) : Fragment := { fa with oid := oid, start := s, stop := e, tags := ["Cut".toList] }
private def TQ : List (Nat × OverlapResult × Fragment) :=
  [(1, { oQ 1 30 with stop := 30, rows := [.frag (newQ 20 1 30)] }, newQ 20 1 30),
   (0, { oQ 31 70 with start := 31, stop := 70, rows := [.frag (newQ 21 31 70)] }, newQ 21 31 70),
   (2, { oQ 71 100 with start := 71, rows := [.frag (newQ 22 71 100)] }, newQ 22 71 100)]
private def kQ (h : Nat) : Int := [31, 1, 71].getD h 0

example : (∀ h ∈ fndQ.scaffolds, (getRes bQ.store h).fragmentStartIfTrimmed fndQ.fragment = .ok (kQ h)) ∧
    (TQ.map (·.1)).Perm fndQ.scaffolds ∧ (TQ.map (·.1)).Pairwise (fun a c => kQ a < kQ c) ∧
    (∀ j t, TQ[j]? = some t →
      (bQ.store.getD t.1 default).o.trimFragment fndQ.fragment (cutFlags fndQ.fragment.strand j (TQ.length - 1)).1
        (cutFlags fndQ.fragment.strand j (TQ.length - 1)).2 (bQ.nextOid + j) = .ok (t.2.1, t.2.2)) ∧
    TQ.map (·.2.2) = [newQ 20 1 30, newQ 21 31 70, newQ 22 71 100] ∧
    Adj Follows' [newQ 20 1 30, newQ 21 31 70, newQ 22 71 100] := by
  refine ⟨by decide, by decide, by decide, ?_, by decide,
    ⟨⟨rfl, by decide, by decide, by decide⟩, ⟨rfl, by decide, by decide, by decide⟩, trivial⟩⟩
  intro j t ht
  match j, ht with
  | 0, ht => cases ht; decide
  | 1, ht => cases ht; decide
  | 2, ht => cases ht; decide
  | j + 3, ht => simp [TQ] at ht

/-- … and evaluated: three pieces, two cuts -/
example : (cutFragments bQ fndQ).toOption.map (fun b => b.cuts) = some 2 ∧
    (cutFragments bQ fndQ).toOption.map (fun b => b.nextOid) = some 23 ∧
    (cutFragments bQ fndQ).toOption.map (fun b => b.store.map (fun r => r.o.rows)) =
      some [[.frag (newQ 21 31 70)], [.frag (newQ 20 1 30)], [.frag (newQ 22 71 100)]] := by
  decide +kernel

/-! ## non-vacuity of the full theorem: a forward contig cut TWICE and a reverse contig cut once -/

private def b3 : Fragment := { oid := 6, name := "ctgB3".toList, start := 1, stop := 30, strand := 1 }
/-- 180 bp: b1 1-80, gap, b2 86-145 (reverse here), gap, b3 151-180 -/
private def sB' : Scaffold :=
  { name := "scaffold_2".toList, rows := [.frag b1, .gap g5, .frag b2.reverse, .gap g5, .frag b3] }
private def inpN : List Scaffold := [sA, sB']
/-- `scaffold_1` (a1 1-100, gap, a2 111-190 reverse, gap, a3 201-240) is cut at 30 | 31 and 70 | 71 — both inside a1, the
    middle piece 31..70 lies wholly inside a1 — and at 150 | 151 inside a2; `scaffold_2` is cut at 115 | 116 inside its
    reverse contig b2 (86..145). -/
private def ptxN : List Scaffold :=
  [{ name := "Scaffold_1".toList,
     rows := [pc sA.name 31 70 (-1), .gap jg, pc sB'.name 116 180 1, .gap jg, pc sA.name 151 240 1] },
   { name := "Scaffold_2".toList,
     rows := [pc sB'.name 1 115 1, .gap jg, pc sA.name 71 150 (-1), .gap jg, pc sA.name 1 30 1] }]

example : DeepCutN inpN ptxN 9 := deepCutN_of_check _ _ _ (by decide +kernel)
example : NoClashDeepN inpN ptxN jg := by unfold NoClashDeepN; decide +kernel
example : ∀ sc ∈ inpN, ∀ f ∈ sc.fragments, f.strand = 1 ∨ f.strand = -1 := by decide

/-- the chains: a1 is held by the pieces 5 (1..30), 0 (31..70), 4 (71..150) in scaffold order -/
example : (sitesN inpN ptxN).map (fun x => (x.frag.name, x.chain)) =
    [(b2.name, [3, 1]), (a1.name, [5, 0, 4]), (a2.name, [4, 2])] := by decide +kernel

/-- `remap`, evaluated by the kernel independently of the theorems, returns the specified output; 4 cuts
    = 7 incidences − 3 shared contigs -/
example : (remap inpN ptxN "SUPER_".toList (some jg) 9).toOption.map (·.1) =
    some (primaryOnly (expectedScaffoldsDeepN inpN ptxN jg)) := by decide +kernel
example : (remap inpN ptxN "SUPER_".toList (some jg) 9).toOption.map (fun r => r.2.cuts) = some 4 := by decide +kernel
example : incidencesN inpN ptxN = 7 ∧ (sharedKeys inpN ptxN).length = 3 := by decide +kernel

/-- the three parts of a1, in the output: `ctgA1:31-70` (reversed piece), `ctgA1:71-100`, `ctgA1:1-30` -/
example : ((expectedScaffoldsDeepN inpN ptxN jg).map (fun s => (fragmentsOf s.rows).filter (fun f => f.name = a1.name))).flatten.map
      (fun f => (f.start, f.stop, f.strand)) = [(31, 70, -1), (71, 100, -1), (1, 30, 1)] := by decide +kernel

end AgpTpf.C02
