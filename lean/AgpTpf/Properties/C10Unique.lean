/-
  C10, first sentence — "Within each output assembly scaffold names are unique (for input names outside the generated
  <prefix>.., H_.. and Pretext Scaffold_.. namespaces)" — for ALL scaffolds of ALL output assemblies of `remap`:
  autosomes and their unlocs (rank 1), name-tagged chromosomes and their unlocs (rank 2), unplaced scaffolds (rank 3:
  unpainted Pretext scaffolds, left-over input scaffolds), and the tagged assemblies Haplotig / Contaminant /
  FalseDuplicate.

  Model: `remap` = `remapToInput` (find_assembly_overlaps, overhang resolver, cut_fragments, rename_by_size, add_missing)
  followed by `assembliesFused` (scaffolds_fused_by_name, split loop with add_chr_prefix, ChrNamer.name_chromosomes,
  smart_sort_scaffolds).  Python: build_assembly.py, build_utils.py.

  PROVED (all at full strength for the model, no `_partial`):
    U1 `fused_names_unique_per_key`       two scaffolds of `scaffolds_fused_by_name` with equal (tag, haplotype, name)
                                          are the same scaffold
    U2 `NamesOutsideGenerated`            (clauses 1–6, `names_outside_generated_iff`), and clause 7 in two forms:
       `TaggedOneHaplotype`               (7a, 7b; `tagged_one_haplotype_iff`) — Contaminant / FalseDuplicate scaffolds
                                          carry NO haplotype;
       `TaggedNamesGiveHaplotype`         (7'a–7'd; `tagged_names_give_haplotype_iff`) — their NAME determines the
                                          haplotype (covers two-haplotype maps whose contaminants sit on `HAP1_…` /
                                          `HAP2_…` input scaffolds).
                                          All clauses are explicit, decidable conditions on the input scaffolds, the
                                          Pretext scaffolds and the prefix (checked by `decide +kernel` in the examples).
    U3 `remap_names_unique`               `remap … = .ok (outs, stats)` → `NamesOutsideGenerated` → `TaggedOneHaplotype`
                                          → every output assembly has pairwise different scaffold names
       `remap_names_unique_named`         the same with `TaggedNamesGiveHaplotype` instead
       `remap_names_unique_curated`       the same WITHOUT any clause 7 for every assembly whose key is not
                                          `Contaminant` / `FalseDuplicate`: all curated assemblies (primary, every
                                          haplotype) and the Haplotig assembly (`H_1 … H_n` after `rename_by_size`)
    U4 one `decide +kernel` counter-example through the whole of `remap` for clauses 1, 2, 3, 4, 7 (both forms) and 7'b
       (each: two scaffolds with the same name in one output assembly, every OTHER clause holding): `dup_*` below.
       All six were reproduced on the Python code (harness `real_remap`).
       Clause 5 (Pretext names not occurring inside `_unloc_<k>`), clause 6 (at most 55231 Pretext scaffolds) and
       clause 7'a (case-consistent haplotype spellings) are needed by the proof (shape `<prefix><n><suffix>` of the new
       names; injectivity of the model's `Char.ofNat`; the namer's haplotype being exactly tag-or-prefix); no duplicate
       was found without them (`no_dup_found_clause5` shows the mangled but still distinct names).
    Non-vacuity: `ex_*` (single haplotype: autosome + unloc, name-tagged chromosome, haplotig, contaminant, unpainted
    scaffold, left-over), `ex2_*` (two haplotypes by tags), `ex3_*` (two haplotypes read from FASTA-style names,
    contaminants with haplotypes) — hypotheses by `decide +kernel`, theorem instantiated, `remap` evaluated.
  The proof is in `Proofs/C10U*.lean`: back half `C10UBack.fused_names_nodup` (from conditions on the fused scaffolds,
  `FusedOk`, to the output assemblies), front half `C10UFront.front_spec` (invariants of the store through
  `remapToInput`, parametrised by the condition `Par.Q` kept on Contaminant / FalseDuplicate scaffolds),
  `C10UMain.remap_names_unique_gen`, instances `C10UTagA` (no haplotype / no condition) and `C10UTagB` (name
  determines haplotype; `makeScaffoldName_exact`).

  What makes names unique, and what the clauses are for:
    * inside ONE fused list two scaffolds with the same name differ in tag or haplotype (U1); an assembly keyed by a
      haplotype (or `None`) holds untagged scaffolds of that one haplotype → different names BEFORE renaming.  (A
      haplotype is never the empty string, so key `None` = haplotype `None`: `C10UNamer.makeScaffoldName_facts`.)
    * renaming: rank 1 → `<prefix><n>[letter][_unloc_<k>]` (injective per haplotype key: C10 / C10Multi), rank 2 →
      `<prefix><tag>[_unloc_<k>]` (injective when no tag runs into the prefix: clause 3), rank 3 untouched (an input
      scaffold name: outside `<prefix>…` by clause 1).  Rank 1 vs rank 2: `<n>[letter]` is never a chromosome-name tag
      except `<digits><one capital>` (`C10UStr.num_ne_tag`, clause 4; a pure number is NOT a chromosome-name tag, so in
      single-haplotype maps rank 1 and rank 2 never clash).
    * an assembly keyed by a TAG holds scaffolds of all haplotypes: equal names with different haplotypes coexist
      (clause 7 excludes haplotypes there, or makes them a function of the name; for Haplotig the names `H_<k>` are
      different by construction); a haplotype STRING equal to a tag word would put untagged scaffolds in the tagged
      assembly (clause 2, finding F16).
-/
import AgpTpf.Proofs.C10UTagA
import AgpTpf.Proofs.C10UTagB
namespace AgpTpf.C10
open AgpTpf

/-! ## U1 -/

/-- **U1.**  In `scaffolds_fused_by_name` two scaffolds with the same `(tag, haplotype, name)` are the same scaffold
    (from `C09.fuse_keeps_tag`: the dict keys are pairwise different). -/
theorem fused_names_unique_per_key (b : Build) :
    ∀ s ∈ fuseByName b, ∀ s' ∈ fuseByName b,
      s.tag = s'.tag → s.haplotype = s'.haplotype → s.name = s'.name → s = s' := by
  intro s hs s' hs' h1 h2 h3
  exact C01.nodup_map_inj C09.triple (fuseByName b) (C09.fuse_keeps_tag b).2.2.1 s hs s' hs'
    (by unfold C09.triple; rw [h1, h2, h3])

/-- … and, by position: different positions of the fused list have different triples -/
theorem fused_triples_nodup (b : Build) : ((fuseByName b).map (fun s => (s.tag, s.haplotype, s.name))).Nodup :=
  (C09.fuse_keeps_tag b).2.2.1

/-! ## U2  the hypotheses, clause by clause -/

/-- the six clauses of `NamesOutsideGenerated` (definitions in `Proofs/C10UHyp.lean`, repeated here):
    1 `InputOutsidePrefix`     `∀ sc ∈ input, prefix.isPrefixOf sc.name = false`
    2 `NoTagWordHaplotype`     `∀ nm ∈ fragNames ptx ++ fragNames input, hapPrefixOfName nm ∉ [Contaminant, FalseDuplicate, Haplotig]`
    3 `ChrTagsPrefixFree`      `∀ ps ∈ ptx, ∀ t ∈ ps.fragmentTags, isChrNameTag t → prefixFree prefix t`
    4 `ChrTagsNotNumLetter`    `∀ ps ∈ ptx, ∀ t ∈ ps.fragmentTags, isChrNameTag t → isNumLetter t = false`
    5 `PaintedNamesUnlocFree`  `∀ ps ∈ ptx, Painted ∈ ps.fragmentTags → unlocFreeName ps.name`
    6 `FewScaffolds`           `ptx.length ≤ 55231` -/
theorem names_outside_generated_iff (input ptx : List Scaffold) (prefix_ : Str) :
    NamesOutsideGenerated input ptx prefix_ ↔
      (∀ sc ∈ input, prefix_.isPrefixOf sc.name = false) ∧
      (∀ nm ∈ fragNames ptx ++ fragNames input,
        hapPrefixOfName nm ∉ [some sContaminant, some sFalseDuplicate, some sHaplotig]) ∧
      (∀ ps ∈ ptx, ∀ t ∈ ps.fragmentTags, isChrNameTag t = true → prefixFree prefix_ t = true) ∧
      (∀ ps ∈ ptx, ∀ t ∈ ps.fragmentTags, isChrNameTag t = true → C10U.isNumLetter t = false) ∧
      (∀ ps ∈ ptx, sPainted ∈ ps.fragmentTags → unlocFreeName ps.name = true) ∧
      ptx.length ≤ 55231 :=
  namesOutsideGenerated_iff input ptx prefix_

/-- the two clauses of `TaggedOneHaplotype` ("tagged assemblies: one haplotype"):
    7a a Pretext scaffold with a piece tagged Contaminant / FalseDuplicate — or without a Target tag when Target tags are
       used anywhere — has no haplotype tag and its first row's name no haplotype prefix;
    7b when Target tags are used, no input contig has a haplotype tag or a haplotype prefix. -/
theorem tagged_one_haplotype_iff (input ptx : List Scaffold) :
    TaggedOneHaplotype input ptx ↔
      (∀ ps ∈ ptx, mayBeTagged ((ptx ++ input).any hasTarget) ps = true → hapFreeSc ps = true) ∧
      ((ptx ++ input).any hasTarget = true → ∀ sc ∈ input, ∀ f ∈ sc.fragments, fragHapFree f = true) :=
  taggedOneHaplotype_iff input ptx

/-- the four clauses of `TaggedNamesGiveHaplotype`, the SECOND form of clause 7 ("in the tagged assemblies the name
    determines the haplotype"; definitions in `Proofs/C10UTagB.lean`):
    7'a `CaseConsistent (hapSources input ptx)`  no two haplotype spellings (haplotype tags, haplotype prefixes of names)
        differ only in case;
    7'b `NoPrimaryTag`  no `Primary` tag anywhere;
    7'c for every Pretext scaffold that may hold Contaminant / FalseDuplicate pieces and every candidate `c` for its
        current name (`curCands`: chromosome-name tags; the Pretext name if painted, else the first row's name): the
        haplotype `make_scaffold_name` computes (`hapSrcOf`: haplotype tag, else haplotype prefix of the first row's
        name) is the haplotype prefix of `c`, and `_unloc_` does not occur in `c`;
    7'd when Target tags are used: `_unloc_` occurs in no input scaffold name, no input contig has a haplotype tag, and
        every contig's haplotype prefix is that of its scaffold's name (true when contigs are named after their
        scaffold, as in FASTA input). -/
theorem tagged_names_give_haplotype_iff (input ptx : List Scaffold) :
    TaggedNamesGiveHaplotype input ptx ↔
      (∀ a ∈ hapSources input ptx, ∀ b ∈ hapSources input ptx, lowerStr a = lowerStr b → a = b) ∧
      (∀ s ∈ ptx ++ input, sPrimary ∉ s.fragmentTags) ∧
      (∀ ps ∈ ptx, mayBeTagged ((ptx ++ input).any hasTarget) ps = true →
        ∀ c ∈ curCands ps, hapSrcOf ps.fragmentTags ps.rows = hapPrefixOfName c ∧ occursIn unlocInfixStr c = false) ∧
      ((ptx ++ input).any hasTarget = true →
        ∀ sc ∈ input, occursIn unlocInfixStr sc.name = false ∧
          ∀ f ∈ sc.fragments, f.tags.all (fun t => t.isEmpty || !isHapTag t) = true ∧
            hapPrefixOfName f.name = hapPrefixOfName sc.name) :=
  taggedNamesGiveHaplotype_iff input ptx

/-- what the auxiliary predicates mean -/
theorem prefix_free_spec (p t : Str) (h : prefixFree p t = true) :
    p.isPrefixOf t = false ∧ ∀ k, p.isPrefixOf (t ++ "_unloc_".toList ++ natToStr k) = false := by
  refine ⟨by simpa using C10U.prefixFree_spec p t h [] (Or.inl rfl), fun k => ?_⟩
  have := C10U.prefixFree_spec p t h (unlocSuffix k) (Or.inr ⟨k, rfl⟩)
  rw [List.append_assoc]; exact this

theorem unloc_free_name_spec (o : Str) (h : unlocFreeName o = true) (k : Nat) :
    occursIn o ("_unloc_".toList ++ natToStr k) = false := C10U.unlocFree_of_name o h k

example : prefixFree "SUPER_".toList "X".toList = true ∧ prefixFree "SUPER_".toList "S".toList = true ∧
    prefixFree "X".toList "XI".toList = false ∧ unlocFreeName "Scaffold_12".toList = true ∧
    unlocFreeName "c".toList = false ∧ C10U.isNumLetter "1A".toList = true ∧ C10U.isNumLetter "12".toList = false ∧
    C10U.isNumLetter "2RL".toList = false := by decide

/-! ## U3  the theorems -/

/-- **U3.**  Scaffold names are unique inside EVERY output assembly of `remap`. -/
theorem remap_names_unique (input ptx : List Scaffold) (prefix_ : Str) (jg : Option Gap) (err : Int)
    (outs : List OutAsm) (stats : Stats) (h : remap input ptx prefix_ jg err = .ok (outs, stats))
    (H : NamesOutsideGenerated input ptx prefix_) (HT : TaggedOneHaplotype input ptx) :
    ∀ a ∈ outs, (a.scaffolds.map (·.name)).Nodup :=
  C10U.remap_unique_noHap input ptx prefix_ jg err outs stats h H HT

/-- **U3 with the second form of clause 7**: haplotypes ARE allowed on Contaminant / FalseDuplicate scaffolds as long as
    the scaffold's name determines them (e.g. unpainted contaminant scaffolds `HAP1_SCAFFOLD_7` in a two-haplotype map). -/
theorem remap_names_unique_named (input ptx : List Scaffold) (prefix_ : Str) (jg : Option Gap) (err : Int)
    (outs : List OutAsm) (stats : Stats) (h : remap input ptx prefix_ jg err = .ok (outs, stats))
    (H : NamesOutsideGenerated input ptx prefix_) (HN : TaggedNamesGiveHaplotype input ptx) :
    ∀ a ∈ outs, (a.scaffolds.map (·.name)).Nodup :=
  C10U.remap_unique_named input ptx prefix_ jg err outs stats h H HN

/-- **U3 without clause 7**: every curated assembly (primary and every haplotype) and the Haplotig assembly — every
    assembly whose key is not `Contaminant` / `FalseDuplicate` — has pairwise different scaffold names. -/
theorem remap_names_unique_curated (input ptx : List Scaffold) (prefix_ : Str) (jg : Option Gap) (err : Int)
    (outs : List OutAsm) (stats : Stats) (h : remap input ptx prefix_ jg err = .ok (outs, stats))
    (H : NamesOutsideGenerated input ptx prefix_) :
    ∀ a ∈ outs, a.key ≠ some sContaminant → a.key ≠ some sFalseDuplicate → (a.scaffolds.map (·.name)).Nodup :=
  C10U.remap_unique_curated input ptx prefix_ jg err outs stats h H

/-! ## non-vacuity: a map with every kind of scaffold -/

private def uJg : Gap := { length := 200, gapType := "scaffold".toList }
private def uCtg (oid : Nat) (n : Str) (len : Int) : Fragment := { oid := oid, name := n, start := 1, stop := len, strand := 1 }
private def uIn (n : Str) (fs : List Fragment) : Scaffold := { name := n, rows := fs.map Row.frag }
private def uPc (n : Str) (s e : Int) (tags : List Str) : Row :=
  .frag { name := n, start := s, stop := e, strand := 1, tags := tags }
private def uPs (n : Str) (rows : List Row) : Scaffold := { name := n, rows := rows }
private def uNames (r : R (List OutAsm × Stats)) : Option (List (Option Str × List Str)) :=
  r.toOption.map (fun x => x.1.map (fun a => (a.key, a.scaffolds.map (·.name))))

/-- seven input scaffolds (one contig each) -/
def exInput : List Scaffold :=
  [uIn "scaffold_1".toList [uCtg 1 "c1".toList 100], uIn "scaffold_2".toList [uCtg 2 "c2".toList 80],
   uIn "scaffold_3".toList [uCtg 3 "c3".toList 60], uIn "scaffold_4".toList [uCtg 4 "c4".toList 50],
   uIn "scaffold_5".toList [uCtg 5 "c5".toList 40], uIn "scaffold_6".toList [uCtg 6 "c6".toList 30],
   uIn "scaffold_7".toList [uCtg 7 "c7".toList 20]]

/-- an autosome with an unloc, a name-tagged chromosome, a haplotig, a contaminant, an unpainted scaffold;
    `scaffold_7` is not in the map (left-over) -/
def exPtx : List Scaffold :=
  [uPs "Scaffold_1".toList [uPc "scaffold_1".toList 1 100 [sPainted], .gap uJg, uPc "scaffold_2".toList 1 80 [sPainted, sUnloc]],
   uPs "Scaffold_2".toList [uPc "scaffold_3".toList 1 60 [sPainted, "X".toList]],
   uPs "Scaffold_3".toList [uPc "scaffold_4".toList 1 50 [sHaplotig]],
   uPs "Scaffold_4".toList [uPc "scaffold_5".toList 1 40 [sContaminant]],
   uPs "Scaffold_5".toList [uPc "scaffold_6".toList 1 30 []]]

theorem ex_hypotheses : NamesOutsideGenerated exInput exPtx "SUPER_".toList ∧ TaggedOneHaplotype exInput exPtx := by
  rw [namesOutsideGenerated_iff, taggedOneHaplotype_iff]
  decide +kernel

/-- the theorem instantiated: whatever `remap` returns for this map, names are unique in every assembly … -/
theorem ex_names_unique (outs : List OutAsm) (stats : Stats)
    (h : remap exInput exPtx "SUPER_".toList (some uJg) 1 = .ok (outs, stats)) :
    ∀ a ∈ outs, (a.scaffolds.map (·.name)).Nodup :=
  remap_names_unique exInput exPtx _ _ _ outs stats h ex_hypotheses.1 ex_hypotheses.2

/-- … and it does return something: three assemblies -/
theorem ex_evaluated : uNames (remap exInput exPtx "SUPER_".toList (some uJg) 1) =
    some [(none, ["SUPER_1".toList, "SUPER_1_unloc_1".toList, "SUPER_X".toList, "scaffold_6".toList,
                  "scaffold_7".toList]),
          (some sHaplotig, ["H_1".toList]), (some sContaminant, ["scaffold_5".toList])] := by decide +kernel

example : ∃ outs stats, remap exInput exPtx "SUPER_".toList (some uJg) 1 = .ok (outs, stats) ∧
    ∀ a ∈ outs, (a.scaffolds.map (·.name)).Nodup := by
  cases hr : remap exInput exPtx "SUPER_".toList (some uJg) 1 with
  | error e =>
    have := ex_evaluated
    rw [hr] at this
    cases this
  | ok r => exact ⟨r.1, r.2, rfl, ex_names_unique r.1 r.2 hr⟩


/-! ### a two-haplotype map -/

/-- two haplotypes (haplotype tags `HAP1` / `HAP2`), a homologous pair of autosomes, a homologous pair name-tagged `X`,
    a haplotig, a contaminant on an input scaffold without haplotype prefix, an unpainted `HAP1_…` scaffold -/
def ex2Input : List Scaffold :=
  [uIn "HAP1_SCAFFOLD_1".toList [uCtg 1 "c1".toList 100], uIn "HAP2_SCAFFOLD_1".toList [uCtg 2 "c2".toList 90],
   uIn "HAP1_SCAFFOLD_2".toList [uCtg 3 "c3".toList 80], uIn "HAP2_SCAFFOLD_2".toList [uCtg 4 "c4".toList 70],
   uIn "HAP2_SCAFFOLD_3".toList [uCtg 5 "c5".toList 60], uIn "scaffold_9".toList [uCtg 6 "c6".toList 50],
   uIn "HAP1_SCAFFOLD_4".toList [uCtg 7 "c7".toList 40]]
def ex2Ptx : List Scaffold :=
  [uPs "Scaffold_1".toList [uPc "HAP1_SCAFFOLD_1".toList 1 100 [sPainted, "HAP1".toList]],
   uPs "Scaffold_2".toList [uPc "HAP2_SCAFFOLD_1".toList 1 90 [sPainted, "HAP2".toList]],
   uPs "Scaffold_3".toList [uPc "HAP1_SCAFFOLD_2".toList 1 80 [sPainted, "HAP1".toList, "X".toList]],
   uPs "Scaffold_4".toList [uPc "HAP2_SCAFFOLD_2".toList 1 70 [sPainted, "HAP2".toList, "X".toList]],
   uPs "Scaffold_5".toList [uPc "HAP2_SCAFFOLD_3".toList 1 60 [sHaplotig]],
   uPs "Scaffold_6".toList [uPc "scaffold_9".toList 1 50 [sContaminant]],
   uPs "Scaffold_7".toList [uPc "HAP1_SCAFFOLD_4".toList 1 40 []]]

theorem ex2_hypotheses : NamesOutsideGenerated ex2Input ex2Ptx "SUPER_".toList ∧ TaggedOneHaplotype ex2Input ex2Ptx := by
  rw [namesOutsideGenerated_iff, taggedOneHaplotype_iff]
  decide +kernel

theorem ex2_evaluated : uNames (remap ex2Input ex2Ptx "SUPER_".toList (some uJg) 1) =
    some [(some "HAP1".toList, ["SUPER_1".toList, "SUPER_X".toList, "HAP1_SCAFFOLD_4".toList]),
          (some "HAP2".toList, ["SUPER_1".toList, "SUPER_X".toList]),
          (some sHaplotig, ["H_1".toList]), (some sContaminant, ["scaffold_9".toList])] := by decide +kernel

example (outs : List OutAsm) (stats : Stats)
    (h : remap ex2Input ex2Ptx "SUPER_".toList (some uJg) 1 = .ok (outs, stats)) :
    ∀ a ∈ outs, (a.scaffolds.map (·.name)).Nodup :=
  remap_names_unique ex2Input ex2Ptx _ _ _ outs stats h ex2_hypotheses.1 ex2_hypotheses.2

/-! ### a two-haplotype map with haplotypes read from the input names (FASTA input: contigs named after their scaffold) -/

def ex3Input : List Scaffold :=
  [uIn "HAP1_SCAFFOLD_1".toList [uCtg 1 "HAP1_SCAFFOLD_1".toList 100],
   uIn "HAP2_SCAFFOLD_1".toList [uCtg 2 "HAP2_SCAFFOLD_1".toList 90],
   uIn "HAP1_SCAFFOLD_2".toList [uCtg 3 "HAP1_SCAFFOLD_2".toList 80],
   uIn "HAP2_SCAFFOLD_2".toList [uCtg 4 "HAP2_SCAFFOLD_2".toList 70],
   uIn "HAP2_SCAFFOLD_3".toList [uCtg 5 "HAP2_SCAFFOLD_3".toList 60],
   uIn "HAP1_SCAFFOLD_4".toList [uCtg 6 "HAP1_SCAFFOLD_4".toList 50]]
/-- a homologous pair of autosomes, one contaminant scaffold per haplotype, a haplotig; `HAP1_SCAFFOLD_4` is left over -/
def ex3Ptx : List Scaffold :=
  [uPs "Scaffold_1".toList [uPc "HAP1_SCAFFOLD_1".toList 1 100 [sPainted]],
   uPs "Scaffold_2".toList [uPc "HAP2_SCAFFOLD_1".toList 1 90 [sPainted]],
   uPs "Scaffold_3".toList [uPc "HAP1_SCAFFOLD_2".toList 1 80 [sContaminant]],
   uPs "Scaffold_4".toList [uPc "HAP2_SCAFFOLD_2".toList 1 70 [sContaminant]],
   uPs "Scaffold_5".toList [uPc "HAP2_SCAFFOLD_3".toList 1 60 [sHaplotig]]]

/-- the contaminant scaffolds carry the haplotypes HAP1 / HAP2: the first form of clause 7 fails, the second holds -/
theorem ex3_hypotheses : NamesOutsideGenerated ex3Input ex3Ptx "SUPER_".toList ∧
    TaggedNamesGiveHaplotype ex3Input ex3Ptx ∧ ¬ TaggedOneHaplotype ex3Input ex3Ptx := by
  rw [namesOutsideGenerated_iff, taggedNamesGiveHaplotype_iff, taggedOneHaplotype_iff]
  refine ⟨by decide +kernel, ⟨by decide +kernel, by decide +kernel, by decide +kernel, by decide +kernel⟩, by decide +kernel⟩

theorem ex3_evaluated : uNames (remap ex3Input ex3Ptx "SUPER_".toList (some uJg) 1) =
    some [(some "HAP1".toList, ["SUPER_1".toList, "HAP1_SCAFFOLD_4".toList]), (some "HAP2".toList, ["SUPER_1".toList]),
          (some sContaminant, ["HAP1_SCAFFOLD_2".toList, "HAP2_SCAFFOLD_2".toList]),
          (some sHaplotig, ["H_1".toList])] := by decide +kernel

example (outs : List OutAsm) (stats : Stats)
    (h : remap ex3Input ex3Ptx "SUPER_".toList (some uJg) 1 = .ok (outs, stats)) :
    ∀ a ∈ outs, (a.scaffolds.map (·.name)).Nodup :=
  remap_names_unique_named ex3Input ex3Ptx _ _ _ outs stats h ex3_hypotheses.1 ex3_hypotheses.2.1

/-! ## U4  every clause is needed: counter-examples through the whole of `remap`

  Each `dup_*` theorem: (i) the output of `remap` with two equal names in one assembly, (ii) the clause in question is
  false, (iii) every other clause holds. -/

/-- **clause 1 (input names outside `<prefix>…`).**  An input scaffold called `SUPER_1` that is not painted stays
    `SUPER_1` (rank 3) next to the painted chromosome numbered `SUPER_1`.  REALISTIC: curating an assembly whose
    scaffolds are already called `SUPER_<n>` (this is the exclusion written into the property). -/
theorem dup_input_in_prefix_namespace :
    let input := [uIn "scaffold_1".toList [uCtg 1 "c1".toList 100], uIn "SUPER_1".toList [uCtg 2 "c2".toList 80]]
    let ptx := [uPs "Scaffold_1".toList [uPc "scaffold_1".toList 1 100 [sPainted]]]
    uNames (remap input ptx "SUPER_".toList (some uJg) 1) = some [(none, ["SUPER_1".toList, "SUPER_1".toList])] ∧
    ¬ InputOutsidePrefix input "SUPER_".toList ∧
    NoTagWordHaplotype input ptx ∧ ChrTagsPrefixFree ptx "SUPER_".toList ∧ ChrTagsNotNumLetter ptx ∧
    PaintedNamesUnlocFree ptx ∧ FewScaffolds ptx ∧ TaggedPiecesNoHaplotype input ptx ∧
    TargetLeftoversNoHaplotype input ptx := by decide +kernel

/-- **clause 2 (no tag word as haplotype; finding F16).**  The input scaffold `Contaminant_x_1` gives its unpainted
    pieces the HAPLOTYPE "Contaminant"; an untagged piece of it is therefore filed in the Contaminant assembly, next to
    a Contaminant-tagged piece of the same scaffold: same name, different `(tag, haplotype, name)`.  Not realistic (needs an
    input scaffold called `Contaminant_<…>_<n>`). -/
theorem dup_tag_word_haplotype :
    let input := [uIn "Contaminant_x_1".toList [uCtg 1 "c1".toList 50, uCtg 2 "c2".toList 50]]
    let ptx := [uPs "Scaffold_1".toList [uPc "Contaminant_x_1".toList 1 50 []],
                uPs "Scaffold_2".toList [uPc "Contaminant_x_1".toList 51 100 [sContaminant]]]
    uNames (remap input ptx "SUPER_".toList (some uJg) 1) =
      some [(some sContaminant, ["Contaminant_x_1".toList, "Contaminant_x_1".toList])] ∧
    ¬ NoTagWordHaplotype input ptx ∧
    InputOutsidePrefix input "SUPER_".toList ∧ ChrTagsPrefixFree ptx "SUPER_".toList ∧ ChrTagsNotNumLetter ptx ∧
    PaintedNamesUnlocFree ptx ∧ FewScaffolds ptx := by decide +kernel

/-- **clause 3 (chromosome-name tags do not run into the prefix).**  With the prefix `X`, the chromosome tagged `XI`
    "already has the prefix" and keeps its name, the chromosome tagged `I` becomes `X` + `I`.  Not realistic with the
    default prefix `SUPER_` (no chromosome-name tag `[A-Z]\d*|[IVX_]+|\d+[A-Z]+` starts with `SU`). -/
theorem dup_tag_runs_into_prefix :
    let input := [uIn "scaffold_1".toList [uCtg 1 "c1".toList 100], uIn "scaffold_2".toList [uCtg 2 "c2".toList 80]]
    let ptx := [uPs "Scaffold_1".toList [uPc "scaffold_1".toList 1 100 ["XI".toList]],
                uPs "Scaffold_2".toList [uPc "scaffold_2".toList 1 80 ["I".toList]]]
    uNames (remap input ptx "X".toList (some uJg) 1) = some [(none, ["XI".toList, "XI".toList])] ∧
    ¬ ChrTagsPrefixFree ptx "X".toList ∧
    InputOutsidePrefix input "X".toList ∧ NoTagWordHaplotype input ptx ∧ ChrTagsNotNumLetter ptx ∧
    PaintedNamesUnlocFree ptx ∧ FewScaffolds ptx ∧ TaggedPiecesNoHaplotype input ptx ∧
    TargetLeftoversNoHaplotype input ptx := by decide +kernel

/-- **clause 4 (no chromosome-name tag `<digits><one capital>`).**  Two-haplotype map: `Scaffold_2`, `Scaffold_3` (Hap2)
    are grouped with `Scaffold_1` (Hap1) and become `SUPER_1A`, `SUPER_1B`; a Hap2 scaffold name-tagged `1A` becomes
    `SUPER_` + `1A`.  Possible with sensible tagging only if a curator uses name tags like `1A` (the tag regex
    `\d+[A-Z]+` allows them) in a multi-haplotype map; in single-haplotype maps the clause is not needed. -/
theorem dup_number_letter_tag :
    let input := [uIn "scaffold_1".toList [uCtg 1 "c1".toList 100], uIn "scaffold_2".toList [uCtg 2 "c2".toList 80],
                  uIn "scaffold_3".toList [uCtg 3 "c3".toList 70], uIn "scaffold_4".toList [uCtg 4 "c4".toList 60]]
    let ptx := [uPs "Scaffold_1".toList [uPc "scaffold_1".toList 1 100 [sPainted, "Hap1".toList]],
                uPs "Scaffold_2".toList [uPc "scaffold_2".toList 1 80 [sPainted, "Hap2".toList]],
                uPs "Scaffold_3".toList [uPc "scaffold_3".toList 1 70 [sPainted, "Hap2".toList]],
                uPs "Scaffold_4".toList [uPc "scaffold_4".toList 1 60 [sPainted, "Hap2".toList, "1A".toList]]]
    uNames (remap input ptx "SUPER_".toList (some uJg) 1) =
      some [(some "Hap1".toList, ["SUPER_1".toList]),
            (some "Hap2".toList, ["SUPER_1A".toList, "SUPER_1B".toList, "SUPER_1A".toList])] ∧
    ¬ ChrTagsNotNumLetter ptx ∧
    InputOutsidePrefix input "SUPER_".toList ∧ NoTagWordHaplotype input ptx ∧ ChrTagsPrefixFree ptx "SUPER_".toList ∧
    PaintedNamesUnlocFree ptx ∧ FewScaffolds ptx ∧ TaggedPiecesNoHaplotype input ptx ∧
    TargetLeftoversNoHaplotype input ptx := by decide +kernel

/-- **clause 7 (tagged assemblies: one haplotype).**  Two-haplotype map, the X chromosome of each haplotype is
    name-tagged `X` and each holds a piece tagged FalseDuplicate: both pieces are called `X` (the current scaffold name)
    and both go to the FalseDuplicate assembly — `scaffolds_fused_by_name` keeps them apart because their haplotypes
    differ.  REALISTIC (homologous chromosomes carry the same name tag by design; the same happens with Contaminant
    pieces, and with unlocs: `X_unloc_1` twice).  A candidate finding: the false-duplicates / contaminants FASTA and
    AGP get two records called `X`. -/
theorem dup_tagged_two_haplotypes :
    let input := [uIn "scaffold_1".toList [uCtg 1 "c1".toList 100, uCtg 2 "c2".toList 50],
                  uIn "scaffold_2".toList [uCtg 3 "c3".toList 80, uCtg 4 "c4".toList 40]]
    let ptx := [uPs "Scaffold_1".toList [uPc "scaffold_1".toList 1 100 [sPainted, "Hap1".toList, "X".toList], .gap uJg,
                                         uPc "scaffold_1".toList 101 150 [sPainted, sFalseDuplicate]],
                uPs "Scaffold_2".toList [uPc "scaffold_2".toList 1 80 [sPainted, "Hap2".toList, "X".toList], .gap uJg,
                                         uPc "scaffold_2".toList 81 120 [sPainted, sFalseDuplicate]]]
    uNames (remap input ptx "SUPER_".toList (some uJg) 1) =
      some [(some "Hap1".toList, ["SUPER_X".toList]), (some sFalseDuplicate, ["X".toList, "X".toList]),
            (some "Hap2".toList, ["SUPER_X".toList])] ∧
    ¬ TaggedPiecesNoHaplotype input ptx ∧ ¬ TaggedPiecesNamed input ptx ∧
    NamesOutsideGenerated input ptx "SUPER_".toList ∧ TargetLeftoversNoHaplotype input ptx ∧
    CaseConsistent (hapSources input ptx) ∧ NoPrimaryTag input ptx ∧ TargetLeftoversNamed input ptx := by
  refine ⟨by decide +kernel, by decide +kernel, by decide +kernel, ?_, by decide +kernel, by decide +kernel,
    by decide +kernel, by decide +kernel⟩
  rw [namesOutsideGenerated_iff]; decide +kernel

/-- … for that map the curated assemblies are still covered by `remap_names_unique_curated` -/
example (outs : List OutAsm) (stats : Stats) (input ptx : List Scaffold)
    (H : NamesOutsideGenerated input ptx "SUPER_".toList)
    (h : remap input ptx "SUPER_".toList (some uJg) 1 = .ok (outs, stats)) :
    ∀ a ∈ outs, a.key = some "Hap1".toList → (a.scaffolds.map (·.name)).Nodup :=
  fun a ha hk => remap_names_unique_curated input ptx _ _ _ outs stats h H a ha (by rw [hk]; decide) (by rw [hk]; decide)

/-- **clause 7'b (no `Primary` tag), for the second form of clause 7.**  The haplotype `HAP1` becomes `Primary` only from
    the Pretext scaffold that carries the `Primary` tag ONWARDS: a contaminant piece of `HAP1_SCAFFOLD_1` listed before it
    is filed under haplotype `HAP1`, a piece of the same input scaffold listed after it under `Primary` — two records
    called `HAP1_SCAFFOLD_1` in the contaminant assembly.  Needs an input scaffold cut into two contaminant pieces that
    are separate Pretext scaffolds around the `Primary`-tagged one: unusual, but the dependence of the haplotype key on
    the ORDER of the Pretext scaffolds is a finding of its own (the same order dependence sends curated scaffolds of
    haplotype `HAP1` listed before the `Primary` tag to an assembly `HAP1` next to the assembly `Primary`). -/
theorem dup_primary_tag_order :
    let input := [uIn "HAP1_SCAFFOLD_1".toList [uCtg 1 "HAP1_SCAFFOLD_1".toList 100],
                  uIn "HAP1_SCAFFOLD_2".toList [uCtg 2 "HAP1_SCAFFOLD_2".toList 90]]
    let ptx := [uPs "Scaffold_1".toList [uPc "HAP1_SCAFFOLD_1".toList 1 50 [sContaminant]],
                uPs "Scaffold_2".toList [uPc "HAP1_SCAFFOLD_2".toList 1 90 [sPainted, sPrimary]],
                uPs "Scaffold_3".toList [uPc "HAP1_SCAFFOLD_1".toList 51 100 [sContaminant]]]
    uNames (remap input ptx "SUPER_".toList (some uJg) 1) =
      some [(some sContaminant, ["HAP1_SCAFFOLD_1".toList, "HAP1_SCAFFOLD_1".toList]),
            (some sPrimary, ["SUPER_1".toList])] ∧
    ¬ NoPrimaryTag input ptx ∧
    NamesOutsideGenerated input ptx "SUPER_".toList ∧ CaseConsistent (hapSources input ptx) ∧
    TaggedPiecesNamed input ptx ∧ TargetLeftoversNamed input ptx := by
  refine ⟨by decide +kernel, by decide +kernel, ?_, by decide +kernel, by decide +kernel, by decide +kernel⟩
  rw [namesOutsideGenerated_iff]; decide +kernel

/-- **clause 5** is a proof obligation, no duplicate found: a painted Pretext scaffold called `c` with two unlocs
    gets mangled names (`str.replace` also hits the `c` of `_unloc_`), but still three different ones. -/
theorem no_dup_found_clause5 :
    let input := [uIn "scaffold_1".toList [uCtg 1 "c1".toList 100], uIn "scaffold_2".toList [uCtg 2 "c2".toList 80],
                  uIn "scaffold_3".toList [uCtg 3 "c3".toList 70]]
    let ptx := [uPs "c".toList [uPc "scaffold_1".toList 1 100 [sPainted], .gap uJg,
                                uPc "scaffold_2".toList 1 80 [sPainted, sUnloc], .gap uJg,
                                uPc "scaffold_3".toList 1 70 [sPainted, sUnloc]]]
    uNames (remap input ptx "SUPER_".toList (some uJg) 1) =
      some [(none, ["SUPER_1".toList, "SUPER_1_unloSUPER_1_1".toList, "SUPER_1_unloSUPER_1_2".toList])] ∧
    ¬ PaintedNamesUnlocFree ptx := by decide +kernel

end AgpTpf.C10
