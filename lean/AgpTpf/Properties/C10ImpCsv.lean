/-
  T1c / C10 — `AssemblyStats.chromosome_name_csv` as translated from the Python source (`Gen/Imp3.lean`) IS the model's
  `chromosomeNameCsv`, rendered as text (`ImpCsv.renderCsv`: one line `name,chr_name,yes|no\n` per row), or `None` when no line
  was written.  Holds for ALL inputs — every prefix (also the empty one: the replacement text is `""`, so Python's
  `name.replace("", "", 1)` and the model's `replaceFirst [] []` both copy the name), every `original_name` (None, `""`), every rank;
  the source never raises (the `orig_chr_name[orig]` read is guarded by `orig in orig_chr_name`).
  Helper lemmas: `Proofs/ImpCsv.lean`.
-/
import AgpTpf.Proofs.ImpCsv
namespace AgpTpf.C10
open AgpTpf AgpTpf.ImpCsv

/-- the translated source = the model (so `C10.lean` / `C10Report.lean` speak about the text the source writes) -/
theorem chromosome_name_csv_is_source (asm : Assembly) (p : Str) :
    Gen.Imp.AssemblyStats_chromosome_name_csv asm p =
      .ok (if (chromosomeNameCsv p asm.scaffolds).isEmpty then none
           else some (renderCsv (chromosomeNameCsv p asm.scaffolds))) :=
  csvSrc_eq asm p

/-- a chromosome, its unloc (same `original_name`: not localised, the chromosome's name), an unplaced scaffold (no line), a rank-2
    chromosome without `original_name` -/
example :
    Gen.Imp.AssemblyStats_chromosome_name_csv
      { scaffolds :=
        [{ name := "S_1".toList, rank := 1, originalName := some ['A'] },
         { name := "S_1_unloc_1".toList, rank := 1, originalName := some ['A'] },
         { name := "scaffold_9".toList, rank := 3, originalName := some ['B'] },
         { name := "S_X".toList, rank := 2, originalName := none }] } ['S', '_'] =
      .ok (some "S_1,1,yes\nS_1_unloc_1,1,no\nS_X,X,yes\n".toList) := rfl

/-- no rank-1/2 scaffold: nothing is written, the result is `None` -/
example :
    Gen.Imp.AssemblyStats_chromosome_name_csv
      { scaffolds :=
        [{ name := "scaffold_9".toList, rank := 3, originalName := some ['B'] },
         { name := "scaffold_10".toList, rank := 0, originalName := some ['B'] }] } ['S', '_'] = .ok none := rfl

/-- the empty prefix, and an empty `original_name` (falsy: never looked up, always "yes") -/
example :
    Gen.Imp.AssemblyStats_chromosome_name_csv
      { scaffolds :=
        [{ name := "S_1".toList, rank := 1, originalName := some [] },
         { name := "S_2".toList, rank := 1, originalName := some [] }] } [] =
      .ok (some "S_1,S_1,yes\nS_2,S_2,yes\n".toList) := rfl

/-- the text determines the rows (name, chromosome name, localised) when no name / chromosome name contains a comma.  (A newline in a
    name does not break this: the split is at the first two commas, then at the newline after `yes` / `no`.) -/
theorem renderCsv_determines_rows (rows rows' : List (Str × Str × Bool))
    (hc : ∀ r ∈ rows, ',' ∉ r.1 ∧ ',' ∉ r.2.1) (hc' : ∀ r ∈ rows', ',' ∉ r.1 ∧ ',' ∉ r.2.1)
    (h : renderCsv rows = renderCsv rows') : rows = rows' :=
  renderCsv_injective rows rows' hc hc' h

/-- the hypothesis is needed: with commas two different row lists have the same text -/
example :
    renderCsv [("a,b".toList, "c".toList, true)] = renderCsv [("a".toList, "b,c".toList, true)] ∧
    [("a,b".toList, "c".toList, true)] ≠ [("a".toList, "b,c".toList, true)] := by decide

/-- and it is satisfiable by the rows of the example above -/
example : ∀ r ∈ [("S_1".toList, "1".toList, true), ("S_1_unloc_1".toList, "1".toList, false)], ',' ∉ r.1 ∧ ',' ∉ r.2.1 := by
  decide

end AgpTpf.C10
