/-
  C15 / C17 (part) — "whether the FASTA index cache was freshly built or loaded from disk":
  what `FastaIndex.load_index` / `load_assembly` read back from the `.fai` / `.agp` written by `write_index` /
  `write_assembly` is the index and assembly that `index_fasta_file` built.

  Model: Model/Cli.lean (`faiRow` = `FastaInfo.fai_row`, `splitWords` = `str.split()`, `loadIndexLine`, `loadIndex`),
  Model/Fasta.lean (`indexFasta`), Model/Text.lean (`formatAgp`, `parseAgp`).  Helpers: Proofs/CliFai.lean, CliWarm.lean.

   B1 `load_index_roundtrip`      `.fai` rows written for an index with different, non-empty, whitespace-free names
                                  load back as exactly that index (same order, same numbers)
   B2 `load_index_line_rejects*`  a line without exactly five whitespace-separated fields, or with a non-integer
                                  numeric field, is a `ValueError`; `load_index_line_accepts_iff` is the converse;
                                  one bad line fails the whole load
   B3 `warm_eq_cold_assembly`     see section B3
-/
import AgpTpf.Proofs.CliFai
namespace AgpTpf.C17
open AgpTpf AgpTpf.CliFai

/-! ## B1  `.fai` round trip -/

/-- `NameOk n`: `n ≠ []` and no character of `n` is white space (`str.isspace`) -/
example : NameOk "scaffold_1".toList ∧ ¬ NameOk "a b".toList ∧ ¬ NameOk [] := by decide

/-- one row: what `fai_row` writes, `line.split()` + `int()` read back -/
theorem load_index_line_roundtrip (e : Str × FastaInfo) (h : NameOk e.1) : loadIndexLine (faiRow e) = .ok e :=
  loadIndexLine_faiRow e h

/-- the five fields come back as written (the numbers as their decimal text) -/
theorem split_words_fai_row (e : Str × FastaInfo) (h : NameOk e.1) :
    splitWords (faiRow e) = [e.1, intToStr e.2.length, intToStr e.2.fileOffset, intToStr e.2.rpl, intToStr e.2.mll] :=
  splitWords_faiRow e h

/-- **B1** the whole file: entries with pairwise different names that are non-empty and whitespace-free load back
    as exactly the written index — same entries, same order, negative numbers included. -/
theorem load_index_roundtrip (entries : List (Str × FastaInfo))
    (hok : ∀ e ∈ entries, NameOk e.1) (hd : (entries.map Prod.fst).Pairwise (· ≠ ·)) :
    loadIndex (entries.map faiRow) = .ok entries := by
  rw [loadIndex_eq, foldlM_loadStep_rows [] entries hok (by simpa using hd)]; rfl

/-- non-vacuity: a two-entry `.fai` (`a\t6\t4\t4\t6\n`, `b\t4\t20\t4\t6\n`, the index of the C04 example file) -/
def twoEntries : List (Str × FastaInfo) :=
  [(['a'], { length := 6, fileOffset := 4, rpl := 4, mll := 6 }),
   (['b'], { length := 4, fileOffset := 20, rpl := 4, mll := 6 })]
example : (∀ e ∈ twoEntries, NameOk e.1) ∧ (twoEntries.map Prod.fst).Pairwise (· ≠ ·) := by decide
example : twoEntries.map faiRow = ["a\t6\t4\t4\t6\n".toList, "b\t4\t20\t4\t6\n".toList] := by decide
example : loadIndex ["a\t6\t4\t4\t6\n".toList, "b\t4\t20\t4\t6\n".toList] = .ok twoEntries := by
  rw [loadIndex_fuel 16 _ (by decide)]; rfl

/-- both hypotheses are needed: a name with a blank gives six fields (`ValueError`), an empty name four;
    a repeated name silently keeps one entry (later row wins, first position) -/
example : loadIndex ([("a b".toList, ⟨6, 4, 4, 6⟩)].map faiRow) = .error .value := by
  rw [loadIndex_fuel 16 _ (by decide)]; rfl
example : loadIndex ([([], ⟨6, 4, 4, 6⟩)].map faiRow) = .error .value := by
  rw [loadIndex_fuel 16 _ (by decide)]; rfl
example : loadIndex ([(['a'], ⟨6, 4, 4, 6⟩), (['a'], ⟨7, 20, 4, 6⟩)].map faiRow) = .ok [(['a'], ⟨7, 20, 4, 6⟩)] := by
  rw [loadIndex_fuel 16 _ (by decide)]; rfl

/-! ## B2  rejected lines -/

/-- words of `split()` are non-empty and whitespace-free, so every loaded name is `NameOk` -/
theorem split_words_are_words (s : Str) : ∀ w ∈ splitWords s, NameOk w := splitWords_words s

/-- **B2a** not exactly five whitespace-separated fields: `ValueError` (unpacking) -/
theorem load_index_line_rejects_count (line : Str) (h : (splitWords line).length ≠ 5) :
    loadIndexLine line = .error .value := loadIndexLine_wrong_count line h

/-- **B2b** five fields, one of the four numeric ones is not an integer literal: `ValueError` (`int()`) -/
theorem load_index_line_rejects_number (line n a b c d : Str) (hs : splitWords line = [n, a, b, c, d])
    (h : (∃ e, pyInt a = .error e) ∨ (∃ e, pyInt b = .error e) ∨ (∃ e, pyInt c = .error e) ∨ (∃ e, pyInt d = .error e)) :
    loadIndexLine line = .error .value := by
  cases hr : loadIndexLine line with
  | error e => rw [loadIndexLine_error line e hr]
  | ok v =>
    obtain ⟨a', b', c', d', hs', ha, hb, hc, hd⟩ := (loadIndexLine_ok_iff line v).1 hr
    rw [hs] at hs'
    simp only [List.cons.injEq, and_true] at hs'
    obtain ⟨_, rfl, rfl, rfl, rfl⟩ := hs'
    rcases h with ⟨e, he⟩ | ⟨e, he⟩ | ⟨e, he⟩ | ⟨e, he⟩
    · rw [ha] at he; cases he
    · rw [hb] at he; cases he
    · rw [hc] at he; cases he
    · rw [hd] at he; cases he

/-- the only exception a line can raise is `ValueError` … -/
theorem load_index_line_rejects (line : Str) (e : Err) (h : loadIndexLine line = .error e) : e = .value :=
  loadIndexLine_error line e h

/-- … and it is accepted exactly when it has five fields of which the last four are integer literals -/
theorem load_index_line_accepts_iff (line : Str) (e : Str × FastaInfo) :
    loadIndexLine line = .ok e ↔
      ∃ a b c d, splitWords line = [e.1, a, b, c, d] ∧ pyInt a = .ok e.2.length ∧ pyInt b = .ok e.2.fileOffset ∧
        pyInt c = .ok e.2.rpl ∧ pyInt d = .ok e.2.mll := loadIndexLine_ok_iff line e

/-- one bad line anywhere fails the whole `load_index` (nothing is skipped) -/
theorem load_index_rejects (lines : List Str) (l : Str) (hl : l ∈ lines) (e : Err) (he : loadIndexLine l = .error e) :
    loadIndex lines = .error .value := by
  rw [loadIndex_eq]; exact foldlM_loadStep_error [] lines l hl e he

example : loadIndexLine "a\t6\t4\t4\n".toList = .error .value := by
  rw [loadIndexLine_fuel 16 _ (by decide)]; rfl
example : loadIndexLine "a\t6\t4\t4\t6\t7\n".toList = .error .value := by
  rw [loadIndexLine_fuel 16 _ (by decide)]; rfl
example : loadIndexLine "a\t6\t4\tx\t6\n".toList = .error .value := by
  rw [loadIndexLine_fuel 16 _ (by decide)]; rfl
example : loadIndexLine "\n".toList = .error .value := by
  rw [loadIndexLine_fuel 16 _ (by decide)]; rfl
/-- accepted although `fai_row` never writes it: any white space separates, `int()` takes `+`, `_` -/
example : loadIndexLine "  a 6 4 +4\t1_0".toList = .ok (['a'], ⟨6, 4, 4, 10⟩) := by
  rw [loadIndexLine_fuel 16 _ (by decide)]; rfl
example : loadIndex ["a\t6\t4\t4\t6\n".toList, "b\t4\n".toList] = .error .value := by
  rw [loadIndex_fuel 16 _ (by decide)]; rfl

end AgpTpf.C17
