/-
  C15 / C17 (part) — "whether the FASTA index cache was freshly built or loaded from disk":
  what `FastaIndex.load_index` / `load_assembly` read back from the `.fai` / `.agp` written by `write_index` /
  `write_assembly` is the index and assembly that `index_fasta_file` built.

  Model: Model/Cli.lean (`faiRow` = `FastaInfo.fai_row`, `splitFaiLine` = `line.rstrip("\n").split("\t")`,
  `loadIndexLine`, `loadIndex`; `splitWords` = `line.split()` is the reader BEFORE fix f770cde), Model/Fasta.lean
  (`indexFasta`), Model/Text.lean (`formatAgp`, `parseAgp`).  Helpers: Proofs/CliFai.lean, CliWarm.lean.

   B0 `source_fai_split_is_tabs`  source guard: the expression `load_index` unpacks into the five columns
   B1 `load_index_roundtrip`      `.fai` rows written for an index with pairwise different, TAB-free names load back as
                                  exactly that index (same order, same numbers); names may be empty or contain blanks;
                                  `load_index_roundtrip_text`: … also from the written TEXT (names without newline)
   B2 `load_index_line_rejects*`  a line that, after removing trailing newlines, does not have exactly five TAB-separated
                                  fields, or whose numeric fields are not integer literals, is a `ValueError`;
                                  `load_index_line_accepts_iff` is the converse; one bad line fails the whole load
   B3 `cold_assembly_wf`, `warm_eq_cold_assembly`, `warm_eq_cold_index`
                                  the assembly / index `index_fasta_file` builds (C04 `indexFasta_spec`) satisfies C05's
                                  `WFAgp`, is already in reader form (`canonAssembly a = a`), so format → parse gives it
                                  back EXACTLY; hypotheses `ColdOk` (each is needed: see the counterexamples) and
                                  `'\n' ∉ path` for the header line "Built from FASTA file '<path>'".
                                  `warm_eq_cold_index` needs NO condition on the names any more: every name the indexer
                                  produces is `NameOk` (`rec_name_ok`).
   FINDINGS still open (examples at the end): a record named `#…`, a record without residues make the warm assembly
   differ from the cold one.
   REPAIRED (f770cde): a name containing one of the bytes 0x1C–0x1F (white space for `str.split()`, not for
   `bytes.split()`) made every warm start fail with `ValueError`; the example `recFs` documents the defect (old reader:
   six words) and proves that it now round-trips.
-/
import AgpTpf.Proofs.CliFai
import AgpTpf.Proofs.CliWarm
import AgpTpf.Properties.C04
import AgpTpf.Properties.C05
namespace AgpTpf.C17
open AgpTpf AgpTpf.CliFai AgpTpf.CliWarm AgpTpf.C04 AgpTpf.C05

/-! ## B0  source guard -/

/-- the value `load_index` unpacks into `name, length, file_offset, residues_per_line, max_line_length`, as written
    in /repo/src/tola/fasta/index.py now (extracted into `Gen/Cli.lean` on every run).  `splitFaiLine` models exactly
    this expression; if the source changes it, this theorem — and with it the build — fails. -/
theorem source_fai_split_is_tabs : Gen.faiLineSplitExpr = "line.rstrip('\\n').split('\\t')" := by decide

/-! ## B1  `.fai` round trip -/

/-- `NameOk n`: no tab (the column separator) and no newline (the row terminator) in `n`.  Empty names, blanks and
    every other white-space character are fine. -/
example : NameOk "scaffold_1".toList ∧ NameOk "a b".toList ∧ NameOk [] ∧ NameOk ['a', Char.ofNat 28, 'b'] ∧
    ¬ NameOk "a\tb".toList ∧ ¬ NameOk "a\nb".toList := by decide

/-- one row: what `fai_row` writes, `line.rstrip("\n").split("\t")` + `int()` read back (only a tab in the name
    can disturb this; a newline matters only for cutting the file into lines) -/
theorem load_index_line_roundtrip (e : Str × FastaInfo) (h : '\t' ∉ e.1) : loadIndexLine (faiRow e) = .ok e :=
  loadIndexLine_faiRow e h

/-- the five columns come back as written (the numbers as their decimal text) -/
theorem split_fai_row (e : Str × FastaInfo) (h : '\t' ∉ e.1) :
    splitFaiLine (faiRow e) = [e.1, intToStr e.2.length, intToStr e.2.fileOffset, intToStr e.2.rpl, intToStr e.2.mll] :=
  splitFaiLine_faiRow e h

/-- **B1** the whole file: entries with pairwise different, tab-free names load back as exactly the written index —
    same entries, same order, negative numbers included. -/
theorem load_index_roundtrip (entries : List (Str × FastaInfo))
    (hok : ∀ e ∈ entries, '\t' ∉ e.1) (hd : (entries.map Prod.fst).Pairwise (· ≠ ·)) :
    loadIndex (entries.map faiRow) = .ok entries := by
  rw [loadIndex_eq, foldlM_loadStep_rows [] entries hok (by simpa using hd)]; rfl

/-- … and from the written TEXT: with `NameOk` names (no newline either) iterating over the file yields the written
    rows again -/
theorem load_index_roundtrip_text (entries : List (Str × FastaInfo))
    (hok : ∀ e ∈ entries, NameOk e.1) (hd : (entries.map Prod.fst).Pairwise (· ≠ ·)) :
    pyLines (entries.map faiRow).flatten = entries.map faiRow ∧
    loadIndex (pyLines (entries.map faiRow).flatten) = .ok entries := by
  have h1 : pyLines (entries.map faiRow).flatten = entries.map faiRow := by
    apply pyLines_flatten
    intro l hl
    obtain ⟨e, he, rfl⟩ := List.mem_map.1 hl
    exact faiRow_lineOk e (hok e he).2
  exact ⟨h1, by rw [h1]; exact load_index_roundtrip entries (fun e he => (hok e he).1) hd⟩

/-- non-vacuity: a two-entry `.fai` (`a\t6\t4\t4\t6\n`, `b\t4\t20\t4\t6\n`, the index of the C04 example file) -/
def twoEntries : List (Str × FastaInfo) :=
  [(['a'], { length := 6, fileOffset := 4, rpl := 4, mll := 6 }),
   (['b'], { length := 4, fileOffset := 20, rpl := 4, mll := 6 })]
example : (∀ e ∈ twoEntries, NameOk e.1) ∧ (twoEntries.map Prod.fst).Pairwise (· ≠ ·) := by decide
example : twoEntries.map faiRow = ["a\t6\t4\t4\t6\n".toList, "b\t4\t20\t4\t6\n".toList] := by decide
example : loadIndex ["a\t6\t4\t4\t6\n".toList, "b\t4\t20\t4\t6\n".toList] = .ok twoEntries := by rfl

/-- names with a blank and empty names round-trip now (the old `line.split()` gave six / four fields) -/
example : loadIndex ([("a b".toList, ⟨6, 4, 4, 6⟩)].map faiRow) = .ok [("a b".toList, ⟨6, 4, 4, 6⟩)] := by rfl
example : loadIndex ([([], ⟨6, 4, 4, 6⟩)].map faiRow) = .ok [([], ⟨6, 4, 4, 6⟩)] := by rfl
/-- both hypotheses are needed: a tab in the name gives six columns (`ValueError`); a repeated name silently keeps
    one entry (later row wins, first position) -/
example : loadIndex ([("a\tb".toList, ⟨6, 4, 4, 6⟩)].map faiRow) = .error .value := by rfl
example : loadIndex ([(['a'], ⟨6, 4, 4, 6⟩), (['a'], ⟨7, 20, 4, 6⟩)].map faiRow) = .ok [(['a'], ⟨7, 20, 4, 6⟩)] := by rfl
/-- a newline in the name: the row itself would still be read, but the file no longer splits into the rows -/
example : pyLines ([("a\nb".toList, (⟨6, 4, 4, 6⟩ : FastaInfo))].map faiRow).flatten = ["a\n".toList, "b\t6\t4\t4\t6\n".toList] := by
  decide

/-! ## B2  rejected lines -/

/-- columns of `split("\t")` never contain a tab, so every loaded name is tab-free -/
theorem split_fai_line_no_tab (s : Str) : ∀ w ∈ splitFaiLine s, '\t' ∉ w := splitFaiLine_no_tab s

/-- **B2a** after removing trailing newlines not exactly five TAB-separated fields: `ValueError` (unpacking) -/
theorem load_index_line_rejects_count (line : Str) (h : (splitFaiLine line).length ≠ 5) :
    loadIndexLine line = .error .value := loadIndexLine_wrong_count line h

/-- **B2b** five fields, one of the four numeric ones is not an integer literal: `ValueError` (`int()`) -/
theorem load_index_line_rejects_number (line n a b c d : Str) (hs : splitFaiLine line = [n, a, b, c, d])
    (h : (∃ e, pyInt a = .error e) ∨ (∃ e, pyInt b = .error e) ∨ (∃ e, pyInt c = .error e) ∨ (∃ e, pyInt d = .error e)) :
    loadIndexLine line = .error .value := by
  cases hr : loadIndexLine line with
  | error e => rw [loadIndexLine_error line e hr]
  | ok v =>
    obtain ⟨a', b', c', d', hs', ha, hb, hc, hd⟩ := (loadIndexLine_ok_iff line v).1 hr
    rw [hs] at hs'
    simp only [List.cons.injEq, and_true] at hs'
    obtain ⟨_, rfl, rfl, rfl, rfl⟩ := hs'
    rcases h with ⟨e, he⟩ | ⟨e, he⟩ | ⟨e, he⟩ | ⟨e, he⟩
    · rw [ha] at he; cases he
    · rw [hb] at he; cases he
    · rw [hc] at he; cases he
    · rw [hd] at he; cases he

/-- the only exception a line can raise is `ValueError` … -/
theorem load_index_line_rejects (line : Str) (e : Err) (h : loadIndexLine line = .error e) : e = .value :=
  loadIndexLine_error line e h

/-- … and it is accepted exactly when it has five tab-separated fields of which the last four are integer literals -/
theorem load_index_line_accepts_iff (line : Str) (e : Str × FastaInfo) :
    loadIndexLine line = .ok e ↔
      ∃ a b c d, splitFaiLine line = [e.1, a, b, c, d] ∧ pyInt a = .ok e.2.length ∧ pyInt b = .ok e.2.fileOffset ∧
        pyInt c = .ok e.2.rpl ∧ pyInt d = .ok e.2.mll := loadIndexLine_ok_iff line e

/-- one bad line anywhere fails the whole `load_index` (nothing is skipped) -/
theorem load_index_rejects (lines : List Str) (l : Str) (hl : l ∈ lines) (e : Err) (he : loadIndexLine l = .error e) :
    loadIndex lines = .error .value := by
  rw [loadIndex_eq]; exact foldlM_loadStep_error [] lines l hl e he

example : loadIndexLine "a\t6\t4\t4\n".toList = .error .value := by rfl
example : loadIndexLine "a\t6\t4\t4\t6\t7\n".toList = .error .value := by rfl
example : loadIndexLine "a\t6\t4\tx\t6\n".toList = .error .value := by rfl
example : loadIndexLine "\n".toList = .error .value := by rfl
/-- blanks do not separate columns any more -/
example : loadIndexLine "a 6 4 4 6\n".toList = .error .value := by rfl
/-- accepted although `fai_row` never writes it: `int()` takes surrounding blanks, `+`, `_`; several / no final newline -/
example : loadIndexLine "a\t 6\t4 \t+4\t1_0\n\n".toList = .ok (['a'], ⟨6, 4, 4, 10⟩) := by rfl
example : loadIndexLine "a\t6\t4\t4\t10".toList = .ok (['a'], ⟨6, 4, 4, 10⟩) := by rfl
example : loadIndex ["a\t6\t4\t4\t6\n".toList, "b\t4\n".toList] = .error .value := by rfl

/-! ## B3  the assembly and index built by `index_fasta_file` survive their files

  `ColdOk recs` (CliWarm): every record well-formed (`Rec.WF`, C04: name token non-empty ASCII, no `bytes.isspace` byte),
  names pairwise different, **every record has ≥ 1 residue**, **no name starts with `#`**.
  `builtFrom path` = `"Built from FASTA file '" ++ path ++ "'"`, the header line of the cold assembly. -/

/-- header-line condition: `HeaderOk` (C05) holds for the "Built from …" line iff the path has no newline
    (it starts with `B`, so the `[#\s]+(.+)` header regex gives it back unchanged) -/
theorem built_from_header_ok (path : Str) (h : '\n' ∉ path) : HeaderOk (builtFrom path) := builtFrom_ok path h

/-- the cold assembly: (i) `WFAgp` — no empty scaffold, consecutive names different, names without tab / leading `#`,
    rows: gap type `scaffold`, fragments untagged, strand 1, start ≤ end; (ii) no newline anywhere; (iii) its object
    ids are already `0,1,2,…` in file order, i.e. it is in reader form. -/
theorem cold_assembly_wf (path : Str) (recs : List Rec) (hp : '\n' ∉ path) (hok : ColdOk recs) :
    let cold : Assembly := { header := [builtFrom path], scaffolds := (recs.foldl addRec {}).scaffolds }
    WFAgp cold ∧ NoNewlines cold ∧ canonAssembly cold = cold := by
  intro cold
  have e : cold = { header := [builtFrom path], scaffolds := coldScaffolds 0 recs } := by
    show ({ header := _, scaffolds := _ } : Assembly) = _
    rw [cold_eq]
  rw [e]
  have hh : ∀ h ∈ [builtFrom path], HeaderOk h := by
    intro h hm; rw [List.mem_singleton] at hm; subst hm; exact builtFrom_ok path hp
  obtain ⟨h1, h2⟩ := cold_WFAgp [builtFrom path] recs hh hok
  exact ⟨h1, h2, cold_canon _ recs⟩

/-- **B3** cold = warm for the assembly, every buffer size: indexing the FASTA file succeeds, writing the resulting
    assembly as AGP succeeds, the written text splits into the written lines, and `parse_agp` of it returns the SAME
    assembly (header line, scaffolds, rows, coordinates, strands, gap types, and even the object ids). -/
theorem warm_eq_cold_assembly (bs : Int) (path : Str) (recs : List Rec) (hne : recs ≠ []) (hp : '\n' ∉ path)
    (hok : ColdOk recs) :
    ∃ st lines, indexFasta (bLines (fileOf recs)) bs = .ok st ∧
      formatAgp { header := [builtFrom path], scaffolds := st.scaffolds } = .ok lines ∧
      pyLines lines.flatten = lines ∧
      parseAgp (pyLines lines.flatten) = .ok { header := [builtFrom path], scaffolds := st.scaffolds } := by
  obtain ⟨st, hst, _, hsc⟩ := indexFasta_spec bs recs hne hok.wf hok.nodup
  obtain ⟨hwf, hnl, hcanon⟩ := cold_assembly_wf path recs hp hok
  obtain ⟨lines, h1, h2, h3⟩ := agp_roundtrip_text' _ hwf hnl
  refine ⟨st, lines, hst, ?_, h2, ?_⟩
  · rw [hsc]; exact h1
  · rw [hsc, h3, hcanon]

/-- every name the indexer produces is usable in a `.fai` file: no tab, no newline (names come from
    `bytes.split()`, which cuts at ASCII white space) -/
theorem rec_name_ok (r : Rec) (h : r.WF) : NameOk r.name :=
  ⟨(rec_name r h).2.1, (rec_name r h).2.2.1⟩

/-- cold = warm for the index, every buffer size, NO condition on the names beyond C04's: the `.fai` written for
    the built index — even read back from its text — loads as exactly that index. -/
theorem warm_eq_cold_index (bs : Int) (recs : List Rec) (hne : recs ≠ []) (hwf : ∀ r ∈ recs, r.WF)
    (hnd : (recs.map Rec.name).Nodup) :
    ∃ st, indexFasta (bLines (fileOf recs)) bs = .ok st ∧ loadIndex (st.idx.map faiRow) = .ok st.idx ∧
      loadIndex (pyLines (st.idx.map faiRow).flatten) = .ok st.idx := by
  obtain ⟨st, hst, hidx, _⟩ := indexFasta_spec bs recs hne hwf hnd
  refine ⟨st, hst, ?_⟩
  have hkeys : st.idx.map Prod.fst = recs.map Rec.name := by
    rw [hidx]; have := foldl_addRec_keys recs {}; simpa using this
  have hok : ∀ e ∈ st.idx, NameOk e.1 := by
    intro e he
    have : e.1 ∈ recs.map Rec.name := by rw [← hkeys]; exact List.mem_map.2 ⟨e, he, rfl⟩
    obtain ⟨r, hr, hre⟩ := List.mem_map.1 this
    rw [← hre]
    exact rec_name_ok r (hwf r hr)
  have hd : (st.idx.map Prod.fst).Pairwise (· ≠ ·) := by rw [hkeys]; exact hnd
  exact ⟨load_index_roundtrip _ (fun e he => (hok e he).1) hd, (load_index_roundtrip_text _ hok hd).2⟩

/-- names of well-formed records: non-empty ASCII, no tab, no newline; the only `str.isspace` characters they can
    contain are U+001C … U+001F -/
theorem rec_name_space (r : Rec) (h : r.WF) :
    r.name ≠ [] ∧ '\t' ∉ r.name ∧ '\n' ∉ r.name ∧
      ∀ c ∈ r.name, c.toNat < 128 ∧ (isSpace c = true → 28 ≤ c.toNat ∧ c.toNat ≤ 31) := rec_name r h

/-- non-vacuity: `>a\nACGTNN\nAC\n>b x\r\nnnAC\r\n` -/
def recA : Rec := { hdr := [97], le := [10], lines := [[65, 67, 71, 84, 78, 78], [65, 67]] }
def recB : Rec := { hdr := [98, 32, 120], le := [13, 10], lines := [[110, 110, 65, 67]] }
theorem coldOk_demo : ColdOk [recA, recB] := by
  refine ⟨?_, by decide, ?_, ?_⟩
  · intro r hr
    simp only [List.mem_cons, List.not_mem_nil, or_false] at hr
    rcases hr with rfl | rfl
    · exact ⟨Or.inl ⟨rfl, by decide⟩, by decide, by decide, by decide, by decide⟩
    · exact ⟨Or.inr rfl, by decide, by decide, by decide, by decide⟩
  · intro r hr
    simp only [List.mem_cons, List.not_mem_nil, or_false] at hr
    rcases hr with rfl | rfl <;> decide
  · intro r hr
    simp only [List.mem_cons, List.not_mem_nil, or_false] at hr
    rcases hr with rfl | rfl <;> decide
example : ([recA, recB].foldl addRec {}).scaffolds =
    [{ name := ['a'], rows := [fragRow 0 ['a'] 0 4, gapRow 2, fragRow 1 ['a'] 6 8] },
     { name := ['b'], rows := [gapRow 2, fragRow 2 ['b'] 2 4] }] := by rfl

/-! ### findings: each extra hypothesis of `ColdOk` is needed -/

def coldOf (recs : List Rec) : Assembly := { header := [builtFrom "x.fa".toList], scaffolds := (recs.foldl addRec {}).scaffolds }
def warmOf (recs : List Rec) : R Assembly := formatAgp (coldOf recs) >>= parseAgp

/-- FINDING 1: a record named `#x` (`>#x\nAC\n`).  Its AGP line starts with `#`, so `parse_agp` reads it as a header
    comment: the warm assembly has NO scaffold and a second header line, the cold one has the scaffold `#x`. -/
def recHash : Rec := { hdr := [35, 120], le := [10], lines := [[65, 67]] }
example : recHash.WF := ⟨Or.inl ⟨rfl, by decide⟩, by decide, by decide, by decide, by decide⟩
example : (coldOf [recHash]).scaffolds = [{ name := "#x".toList, rows := [fragRow 0 "#x".toList 0 2] }] ∧
    (warmOf [recHash]).map (fun a => (a.header.length, a.scaffolds)) = .ok (2, []) := ⟨by rfl, by rfl⟩

/-- FINDING 2: a record without residues (`>e\n>a\nAC\n`): the cold assembly has the empty scaffold `e`, its AGP has no
    line for it, the warm assembly lacks it (the `.fai` still lists `e` with length 0). -/
def recEmpty : Rec := { hdr := [101], le := [10], lines := [] }
def recAC : Rec := { hdr := [97], le := [10], lines := [[65, 67]] }
example : recEmpty.WF := ⟨Or.inl ⟨rfl, by decide⟩, by decide, by decide, by decide, by decide⟩
example : (coldOf [recEmpty, recAC]).scaffolds.map (·.name) = [['e'], ['a']] ∧
    (warmOf [recEmpty, recAC]).map (fun a => a.scaffolds.map (·.name)) = .ok [['a']] ∧
    ([recEmpty, recAC].foldl addRec {}).idx.map Prod.fst = [['e'], ['a']] := ⟨by rfl, by rfl, by rfl⟩

/-! ### repaired by f770cde (was FINDING 3) -/

/-- a name containing U+001C (`>a\x1cb\nAC\n`).  `bytes.split()` keeps the byte inside the name (it is not
    `bytes.isspace`) and the `.fai` row is written with it.  The OLD reader `line.split()` (`splitWords`) cut there:
    six words, `ValueError` on every warm start.  The reader `line.rstrip("\n").split("\t")` gives the index back. -/
def recFs : Rec := { hdr := [97, 28, 98], le := [10], lines := [[65, 67]] }
example : recFs.WF := ⟨Or.inl ⟨rfl, by decide⟩, by decide, by decide, by decide, by decide⟩
example : ([recFs].foldl addRec {}).idx = [(['a', Char.ofNat 28, 'b'], ⟨2, 5, 2, 3⟩)] ∧
    loadIndex (([recFs].foldl addRec {}).idx.map faiRow) = .ok ([recFs].foldl addRec {}).idx := ⟨by rfl, by rfl⟩
/-- the defect: the old splitting of that row -/
example : splitWords (faiRow (['a', Char.ofNat 28, 'b'], ⟨2, 5, 2, 3⟩)) =
    [['a'], ['b'], ['2'], ['5'], ['2'], ['3']] := by
  rw [splitWords_fuel 16 _ (by decide)]; rfl

end AgpTpf.C17
