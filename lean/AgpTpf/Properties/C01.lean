/-
  C01 — Remapping conserves sequence: outputs exactly partition the input contigs.

  The end-to-end theorem (`remap … = .ok outs → the output fragments partition the input contigs`) is a staged
  proof.  PROVED here, each at full strength for its stage (no `_partial` theorems in this file):

    S1  `qc_tiles`               the cut QC (`qc_sub_fragments`) passing ⇒ the sub-fragments, sorted, abut consecutively on
                                 one contig, their lengths sum to the original's, and — when they lie inside the original
                                 (S2) — every base of the original is in exactly one sub-fragment, no base outside is covered.
    S2  `trim_within`            `trim_fragment` only ever shrinks: the new fragment is a valid sub-interval of the trimmed
                                 one, same contig name and strand, for ARBITRARY overhang values.
    S1+S2 `cut_fragments_tiles`  whenever `cut_fragments` returns, the pieces it made tile the cut contig fragment exactly.
    S3  `fuse_fragments`         `scaffolds_fused_by_name` conserves the multiset of `(name,start,end)` triples
        `fuse_gaps`              and only inserts the join gap / the recorded input gap rows (a LIST since model change f6b).
    S4  `missing_rows_exact`     the left-over scaffold holds exactly the input fragments not in `found`, in order, each once;
                                 separators are input gap rows out of the run of gaps in front of the fragment (all of them
                                 when only gaps separate two left-over contigs: model change f6b) or the join gap; no new adjacency.
    S5  `store_found_registers`  `store_fragments_found`: holder lists grow by exactly the occurrences, `multi` = keys with ≥ 2
                                 holders is an invariant.

    L1+S5 `find_assembly_overlaps_registry`  after `find_assembly_overlaps`: stored rows are contiguous runs of input rows,
                                 holder lists = exactly the stored results containing the key, registry invariant holds.
    S3+L4 `outputs_hold_store_and_leftovers` END-TO-END back half: whenever `remap` completes, the triples over all scaffolds
                                 of all output assemblies = triples of (stored results ∪ left-over scaffolds) of the build
                                 returned by `remap_to_input_assembly` (fusing / splitting / naming / sorting conserve).

  STILL MISSING for the full end-to-end statement (one link, not proved here):
    L2/L3  the middle of `remap_to_input_assembly`: that the resolver loop (`resolverRound`/`applyFixBookkeeping`) and
        `cutRemaining` keep "holders of key k = stored results whose rows contain that fragment" (established by
        `find_assembly_overlaps_registry`) in step with the rows that `discardStart/End` remove and `trimFragment` rewrites,
        so that after cutting every input base is held by exactly one stored row or is left over (S4).  It needs an input
        well-formedness hypothesis (distinct `(name,start,end)` keys and distinct object ids over the input fragments:
        the registry is keyed by the triple but the resolver compares object identity) and then chains S1/S2
        (`cut_fragments_tiles`), S4 and `outputs_hold_store_and_leftovers`.

  UPDATE (wave 2) — the missing link is CLOSED, see the last section of this file ("the middle of
  `remap_to_input_assembly` and the end-to-end theorem"): for an input satisfying the decidable well-formedness
  predicate `WFInput`,
    L1  `reg_after_find`          `find_assembly_overlaps` establishes the registry invariant `Reg`;
    L2  `reg_resolver_round`, `reg_discard_overhanging`   every round of the overhang resolver and the whole loop keep it
                                  (premises never go stale within a round: `Valid` in Proofs/C01MiddleResolve.lean);
    L3  `reg_cut`                 `cutRemaining` turns "as many rows as holders" into "exactly one row per base";
    L4  `remap_partitions`        END-TO-END, no hypothesis on the Pretext assembly: whenever `remap` completes, the
                                  `(name,start,end)` triples of all output scaffolds cover every base of every input
                                  contig exactly once, nothing else, and each is a sub-interval of an input fragment.
  All four at full strength (no `_partial`); no statement was found false.
-/
import AgpTpf.Proofs.C01Qc
import AgpTpf.Proofs.C01Store
import AgpTpf.Proofs.C01Missing
import AgpTpf.Proofs.C01Fuse
import AgpTpf.Proofs.C01Cut
import AgpTpf.Proofs.C07Lemmas
import AgpTpf.Proofs.C01Pipeline
import AgpTpf.Proofs.C07Pipeline
import AgpTpf.Proofs.C01MiddleFinal
namespace AgpTpf.C01
open AgpTpf
open AgpTpf.C07 (adjPairs)

/-! ## S1 — the cut QC implies an exact tiling -/

/-- `qc_sub_fragments` passing, for valid sub-fragments (which `Fragment.__init__` guarantees):
    * there is at least one sub-fragment; sorted by `(start, end)` they are a permutation of `subs` in which every
      element starts on the base after its predecessor ends, on the same contig;
    * the lengths sum to the original's length; all sub-fragments have one name;
    * IF every sub-fragment lies within `[f.start, f.stop]` (S2), then every base of `f` lies in exactly one
      sub-fragment and no base outside `f` lies in any. -/
theorem qc_tiles (f : Fragment) (subs : List Fragment) (hv : ∀ s ∈ subs, s.start ≤ s.stop)
    (h : qcPasses f subs = true) :
    subs ≠ [] ∧
    (sortedSubs subs).Perm subs ∧ AdjRel Follows (sortedSubs subs) ∧
    sumInts (subs.map Fragment.length) = f.length ∧
    (∀ s ∈ subs, ∀ t ∈ subs, s.name = t.name) ∧
    ((∀ s ∈ subs, f.start ≤ s.start ∧ s.stop ≤ f.stop) →
      ∀ x, coverCount subs x = if f.start ≤ x ∧ x ≤ f.stop then 1 else 0) :=
  qc_tiles_aux f subs hv h

/-- "exactly one" spelled out: inside `f` some sub-fragment contains the base, and any two sub-fragments (by position
    in `subs`) containing it are the same one -/
theorem qc_tiles_unique (f : Fragment) (subs : List Fragment) (hv : ∀ s ∈ subs, s.start ≤ s.stop)
    (h : qcPasses f subs = true) (hin : ∀ s ∈ subs, f.start ≤ s.start ∧ s.stop ≤ f.stop)
    (x : Int) (hx : f.start ≤ x ∧ x ≤ f.stop) :
    (∃ s ∈ subs, s.start ≤ x ∧ x ≤ s.stop) ∧
    ∀ (i j : Nat) (s t : Fragment), subs[i]? = some s → subs[j]? = some t →
      (s.start ≤ x ∧ x ≤ s.stop) → (t.start ≤ x ∧ x ≤ t.stop) → i = j :=
  coverCount_one_unique subs x (by rw [(qc_tiles f subs hv h).2.2.2.2.2 hin x, if_pos hx])

private def q0 : Fragment := { name := ['c'], start := 1, stop := 30, strand := 1 }
private def q1 : Fragment := { name := ['c'], start := 11, stop := 20, strand := 1 }
private def q2 : Fragment := { name := ['c'], start := 1, stop := 10, strand := 1 }
private def q3 : Fragment := { name := ['c'], start := 21, stop := 30, strand := 1 }
example : qcPasses q0 [q1, q2, q3] = true ∧ (∀ s ∈ [q1, q2, q3], s.start ≤ s.stop) ∧
    (∀ s ∈ [q1, q2, q3], q0.start ≤ s.start ∧ s.stop ≤ q0.stop) := by decide
/-- the QC does reject an overlap, a hole, and a piece that is too short -/
example : qcPasses q0 [q1, q2, { q3 with start := 20 }] = false ∧ qcPasses q0 [q2, q3] = false ∧
    qcPasses q0 [q1, q2, { q3 with stop := 29 }] = false := by decide

/-! ## S2 — trimming only shrinks -/

/-- `trim_fragment(trim, keep_start, keep_end)` returning: the fragment it creates lies within `trim`, is valid, and
    keeps contig name and strand — whatever `o.startOverhang` / `o.endOverhang` are (no hypothesis on `o`). -/
theorem trim_within (o : OverlapResult) (trim : Fragment) (ks ke : Bool) (oid : Nat)
    (o' : OverlapResult) (new : Fragment) (h : o.trimFragment trim ks ke oid = .ok (o', new)) :
    trim.start ≤ new.start ∧ new.stop ≤ trim.stop ∧ new.start ≤ new.stop ∧
    new.name = trim.name ∧ new.strand = trim.strand ∧ new.oid = oid :=
  trim_within_aux o trim ks ke oid o' new h

private def t0 : Fragment := { oid := 7, name := ['c'], start := 1, stop := 100, strand := 1 }
private def o0 : OverlapResult :=
  { bait := { name := ['c'], start := 41, stop := 80, strand := 1 }, start := 1, stop := 100, rows := [.frag t0] }
example : (o0.trimFragment t0 false false 9).toOption.map (fun p => (p.2.start, p.2.stop, p.2.oid)) = some (41, 80, 9) := by
  decide

/-! ## S1 + S2 — `cut_fragments` -/

/-- Whenever `cut_fragments` returns for a registry entry, the sub-fragments it created (one per holding result,
    exposed by the specification function `cutSubs`) tile the cut fragment exactly: each is a valid sub-interval of it
    on the same contig and strand, and every base of the fragment is in exactly one of them. -/
theorem cut_fragments_tiles (b b' : Build) (fnd : Found) (h : cutFragments b fnd = .ok b') :
    ∃ subs, cutSubs b fnd = .ok subs ∧ subs.length = fnd.scaffolds.length ∧
      b'.cuts = b.cuts + ((subs.length : Int) - 1) ∧
      (∀ s ∈ subs, fnd.fragment.start ≤ s.start ∧ s.stop ≤ fnd.fragment.stop ∧ s.start ≤ s.stop ∧
        s.name = fnd.fragment.name ∧ s.strand = fnd.fragment.strand) ∧
      ∀ x, coverCount subs x = if fnd.fragment.start ≤ x ∧ x ≤ fnd.fragment.stop then 1 else 0 :=
  cut_fragments_tiles_aux b b' fnd h

/-! ## S3 — fusing conserves fragments -/

/-- The multiset of `(name, start, end)` triples over all fused scaffolds equals that of the rows of all results that
    were added to the build (`storeKeys`) together with all left-over scaffolds (`extraKeys`).
    (`to_scaffold` reverses row order and negates strands, so conservation is on triples.) -/
theorem fuse_fragments (b : Build) :
    ((fuseByName b).flatMap (fun s => keysOf s.rows)).Perm (storeKeys b.store ++ extraKeys b.extra) :=
  fuseByName_keys b

/-- where a gap row of a fused scaffold can come from (model change f6b: a left-over scaffold now records the LIST of
    input gap rows between its first contig and the predecessor contig; any of them may be re-inserted) -/
def GapSrc (b : Build) (g : Gap) : Prop :=
  (∃ r ∈ b.store, r.added = true ∧ Row.gap g ∈ r.o.rows) ∨
  (∃ e ∈ b.extra, Row.gap g ∈ e.1.rows) ∨
  b.joinGap = some g ∨
  (∃ e ∈ b.extra, ∃ prev gaps, e.2 = some (prev, gaps) ∧ g ∈ gaps)

/-- every gap row of a fused scaffold is a gap row of one of its parts, the join gap, or one of the input gap rows
    recorded with a left-over scaffold's predecessor; and no fused scaffold is empty -/
theorem fuse_gaps (b : Build) : ∀ s ∈ fuseByName b, (∀ g, Row.gap g ∈ s.rows → GapSrc b g) ∧ s.rows ≠ [] := by
  apply fuseByName_all (fun rows => ∀ g, Row.gap g ∈ rows → GapSrc b g)
  · intro r hr hadd _
    have part : ∀ g, Row.gap g ∈ r.o.toScaffoldRows → GapSrc b g := fun g hg =>
      Or.inl ⟨r, hr, hadd, (gap_mem_toScaffoldRows _ _).mp hg⟩
    refine ⟨fun g hg => ?_, fun built _ hb g hg => ?_⟩
    · rcases mem_appendRows _ _ _ _ hg with h | h | ⟨gg, h1, h2⟩
      · cases h
      · exact part g h
      · cases h2; exact Or.inr (Or.inr (Or.inl h1))
    · rcases mem_appendRows _ _ _ _ hg with h | h | ⟨gg, h1, h2⟩
      · exact hb g h
      · exact part g h
      · cases h2; exact Or.inr (Or.inr (Or.inl h1))
  · intro e he _
    have part : ∀ g, Row.gap g ∈ e.1.rows → GapSrc b g := fun g hg => Or.inr (Or.inl ⟨e, he, hg⟩)
    refine ⟨part, fun built _ hb g hg => ?_⟩
    simp only [List.mem_append] at hg
    rcases hg with (h | h) | h
    · exact hb g h
    · obtain ⟨gg, e1, hsrc⟩ := C07.gapsBeforeLeftover_source _ _ _ _ h
      cases e1
      rcases hsrc with h | ⟨prev, gaps, h1, h2⟩
      · exact Or.inr (Or.inr (Or.inl h))
      · exact Or.inr (Or.inr (Or.inr ⟨e, he, prev, gaps, h1, h2⟩))
    · exact part g h

private def jg : Gap := { length := 200, gapType := "scaffold".toList }
private def fa : Fragment := { oid := 1, name := ['a'], start := 1, stop := 10, strand := 1 }
private def fb : Fragment := { oid := 2, name := ['b'], start := 1, stop := 20, strand := 1 }
private def fc : Fragment := { oid := 3, name := ['c'], start := 1, stop := 5, strand := 1 }
private def bx : Build :=
  { namer := { autosomePrefix := [] }, nextOid := 4, joinGap := some jg, err := 1,
    store := [ { o := { bait := { fa with strand := -1 }, start := 1, stop := 10, rows := [.frag fa], name := ['S'] }, added := true },
               { o := { bait := fb, start := 1, stop := 20, rows := [.frag fb], name := ['S'] }, added := true } ],
    extra := [ ({ name := ['S'], rows := [.frag fc] }, none) ] }
/-- three parts with the same `(tag, haplotype, name)` key are fused into one scaffold with two join gaps -/
example : (fuseByName bx).map (·.rows) = [[.frag fa.reverse, .gap jg, .frag fb, .gap jg, .frag fc]] := by decide

/-! ## S4 — left-over rows -/

/-- `missingRows` returning `(out, first)` for one input scaffold's `rows`:
    * the fragments of `out` are exactly the fragments of `rows` whose key is not in `found`, in order, each once;
    * every gap row of `out` is an input gap row out of the run of gap rows directly in front of such a fragment, or the
      join gap (`GapOK`; model change f6b: when only gap rows separate two left-over contigs, ALL of them are kept);
    * no new adjacency: fragments directly adjacent in `out` were directly adjacent rows of `rows`;
    * `out` neither starts nor ends with a gap;
    * `first` is the row index of the first left-over fragment. -/
theorem missing_rows_exact (b : Build) (rows out : List Row) (first : Option Nat)
    (h : missingRows b rows = .ok (out, first)) :
    fragmentsOf out = (fragmentsOf rows).filter (fun f => !dHas b.found f.keyTuple) ∧
    (∀ g, Row.gap g ∈ out → GapOK b rows g) ∧
    (∀ pr ∈ adjPairs out, pr ∈ adjPairs rows) ∧
    (∀ g, out.head? ≠ some (.gap g)) ∧ (∀ g, out.getLast? ≠ some (.gap g)) ∧
    first = (((List.range rows.length).zip rows).find? (isMissing b)).map Prod.fst :=
  missingRows_spec b rows out first h

/-- every gap of `out` is in particular a gap row of `rows` or the join gap (the form asked for in the task) -/
theorem missing_rows_gaps (b : Build) (rows out : List Row) (first : Option Nat)
    (h : missingRows b rows = .ok (out, first)) (g : Gap) (hg : Row.gap g ∈ out) :
    Row.gap g ∈ rows ∨ b.joinGap = some g := by
  rcases (missing_rows_exact b rows out first h).2.1 g hg with ⟨j, _, _, _, _, _, h3, _⟩ | h
  · exact Or.inl (List.mem_of_getElem? h3)
  · exact Or.inr h

private def g5 : Gap := { length := 5, gapType := ['u'] }
private def bm : Build :=
  { namer := { autosomePrefix := [] }, nextOid := 4, joinGap := some jg, err := 1,
    found := [(fb.keyTuple, { fragment := fb, scaffolds := [0] })] }
example : missingRows bm [.frag fa, .gap g5, .frag fb, .frag fc] = .ok ([.frag fa, .gap jg, .frag fc], some 0) := by decide
/-- fix 9be92a2: a contig placed elsewhere lay between the two left-overs, so the join gap is used, not the input gap in front of `fc` -/
example : missingRows bm [.frag fb, .frag fa, .frag fb, .gap g5, .frag fc] = .ok ([.frag fa, .gap jg, .frag fc], some 1) := by
  decide
/-- model change f6b: when only gap rows separate two left-over contigs, every one of them is kept -/
example : missingRows bm [.frag fa, .gap g5, .gap jg, .gap g5, .frag fc] =
    .ok ([.frag fa, .gap g5, .gap jg, .gap g5, .frag fc], some 0) := by decide
/-- without a join gap a needed separator is an error, not a silent gapless join -/
example : missingRows { bm with joinGap := none } [.frag fa, .frag fb, .frag fc] = .error .attribute := by decide

/-! ## S5 — the registry of found fragments -/

/-- `store_fragments_found(sid, frags)`:
    * the holder list of every key grows by exactly one `sid` per occurrence of the key in `frags` (appended, in order);
    * afterwards a key is registered iff it was before or occurs in `frags` — so every fragment of `frags` is registered;
    * the registry invariant (registered keys have ≥ 1 holder; `multi` = exactly the keys with ≥ 2 holders) is preserved;
    * nothing else of the build changes. -/
theorem store_found_registers (b : Build) (sid : Nat) (frags : List Fragment) :
    let b' := storeFragmentsFound b sid frags
    (∀ k, holders b' k = holders b k ++ List.replicate (frags.countP (fun f => decide (f.keyTuple = k))) sid) ∧
    (∀ k, dHas b'.found k = (dHas b.found k || frags.any (fun f => decide (f.keyTuple = k)))) ∧
    (∀ f ∈ frags, dHas b'.found f.keyTuple = true ∧ sid ∈ holders b' f.keyTuple) ∧
    (RegistryInv b → RegistryInv b') ∧
    (b'.store = b.store ∧ b'.extra = b.extra ∧ b'.namer = b.namer ∧ b'.cuts = b.cuts ∧ b'.nextOid = b.nextOid ∧
      b'.joinGap = b.joinGap ∧ b'.err = b.err) := by
  intro b'
  have hb' : b' = frags.foldl (storeOne sid) b := rfl
  have hreg : ∀ k, dHas b'.found k = (dHas b.found k || frags.any (fun f => decide (f.keyTuple = k))) := by
    intro k; unfold dHas; rw [hb']; exact foldl_storeOne_registered sid frags b k
  have hhold : ∀ k, holders b' k = holders b k ++ List.replicate (frags.countP (fun f => decide (f.keyTuple = k))) sid := by
    intro k; rw [hb']; exact foldl_storeOne_holders sid frags b k
  refine ⟨hhold, hreg, ?_, ?_, ?_⟩
  · intro f hf
    constructor
    · rw [hreg]
      have : frags.any (fun f' => decide (f'.keyTuple = f.keyTuple)) = true :=
        List.any_eq_true.mpr ⟨f, hf, by simp⟩
      rw [this]; simp
    · rw [hhold]
      apply List.mem_append_right
      have : 0 < frags.countP (fun f' => decide (f'.keyTuple = f.keyTuple)) :=
        List.countP_pos_iff.mpr ⟨f, hf, by simp⟩
      rw [List.mem_replicate]
      exact ⟨by omega, rfl⟩
  · intro h; rw [hb']; exact foldl_storeOne_inv sid frags b h
  · rw [hb']; exact foldl_storeOne_other_fields sid frags b

/-- the empty registry satisfies the invariant -/
theorem registryInv_empty (b : Build) (h1 : b.found = []) (h2 : b.multi = []) : RegistryInv b := by
  constructor
  · intro k fnd h; rw [h1] at h; simp [dGet?] at h
  · intro k; simp [h2, holders, h1, dGet?]

private def b0 : Build := { namer := { autosomePrefix := [] }, nextOid := 4, joinGap := some jg, err := 1 }
example : (storeFragmentsFound (storeFragmentsFound b0 0 [fa, fb]) 1 [fb, fc]).multi = [fb.keyTuple] ∧
    holders (storeFragmentsFound (storeFragmentsFound b0 0 [fa, fb]) 1 [fb, fc]) fb.keyTuple = [0, 1] := by decide

/-! ## L1 + S5 at pipeline level — what `find_assembly_overlaps` establishes -/

/-- After `find_assembly_overlaps` on a fresh build (any input, any Pretext assembly):
    * every stored result's rows are a contiguous run of the rows of an input scaffold with the bait's name (L1);
    * the registry invariant holds (S5), and for EVERY key the recorded holder list is exactly the list of stored
      results (appended to the build) whose rows contain a fragment with that key, in store order, once per occurrence;
    * results appended to the build are non-empty; no left-over scaffolds exist yet, configuration fields are unchanged. -/
theorem find_assembly_overlaps_registry (input ptx : List Scaffold) (b b' : Build)
    (h0 : b.store = [] ∧ b.found = [] ∧ b.multi = [])
    (h : findAssemblyOverlaps input ptx b = .ok b') :
    RegistryInv b' ∧
    (∀ k, holders b' k = holdersSpec b'.store k) ∧
    (∀ r ∈ b'.store, ∃ sc ∈ input, r.o.rows <:+: sc.rows ∧ sc.name = r.o.bait.name) ∧
    (∀ r ∈ b'.store, r.added = true → r.o.rows ≠ []) ∧
    b'.extra = b.extra ∧ b'.joinGap = b.joinGap ∧ b'.err = b.err ∧ b'.cuts = b.cuts := by
  obtain ⟨e1, e2, e3⟩ := h0
  have hinv : PInv input b := by
    refine ⟨registryInv_empty b e2 e3, ?_, ?_, ?_⟩
    · intro k; simp [holders, e2, dGet?, holdersSpec, e1, holdersFrom]
    · intro r hr; rw [e1] at hr; cases hr
    · intro r hr; rw [e1] at hr; cases hr
  obtain ⟨p, c1, c2, c3, c4⟩ := findAssemblyOverlaps_inv input ptx b b' hinv h
  exact ⟨p.registry, p.holders_eq, p.slices, p.added_iff, c1, c2, c3, c4⟩

private def inA : Scaffold := { name := ['A'], rows := [.frag fa, .gap g5, .frag { fb with name := ['a'], start := 11 }] }
private def inB : Scaffold := { name := ['B'], rows := [.frag fc] }
private def ptx1 : Scaffold :=
  { name := ['S','1'], rows := [.frag { oid := 10, name := ['A'], start := 1, stop := 25, strand := 1, tags := [sPainted] }] }
/-- the hypotheses are satisfiable: a fresh build, and the search completes (one stored result holding two contigs) -/
example : (b0.store = [] ∧ b0.found = [] ∧ b0.multi = []) ∧
    (findAssemblyOverlaps [inA, inB] [ptx1] b0).toOption.map (fun b => b.store.length) = some 1 ∧
    (findAssemblyOverlaps [inA, inB] [ptx1] b0).toOption.map (fun b => b.found.map (·.1)) =
      some [fa.keyTuple, (['a'], 11, 20)] ∧
    (findAssemblyOverlaps [inA, inB] [ptx1] b0).toOption.map (fun b => b.multi) = some [] := by
  refine ⟨⟨rfl, rfl, rfl⟩, ?_, ?_, ?_⟩ <;> decide +kernel

/-! ## S3 + L4 — the back half of the pipeline conserves fragments -/

/-- Whenever `remap` completes: there is the build `b` that `remap_to_input_assembly` returned, and the multiset of
    `(name, start, end)` triples over ALL scaffolds of ALL output assemblies equals the triples held by the stored
    results that were appended to the build together with the left-over scaffolds.  Fusing, the split into assemblies,
    chromosome naming and sorting lose, duplicate and invent nothing. -/
theorem outputs_hold_store_and_leftovers (input ptx : List Scaffold) (prefix_ : Str) (joinGap : Option Gap) (err : Int)
    (outs : List OutAsm) (stats : Stats) (h : remap input ptx prefix_ joinGap err = .ok (outs, stats)) :
    ∃ b, remapToInput input ptx prefix_ joinGap err = .ok b ∧
      (((outs.flatMap (·.scaffolds)).flatMap (fun s => keysOf s.rows)).Perm (storeKeys b.store ++ extraKeys b.extra)) := by
  unfold remap at h
  simp only [bind, Except.bind] at h
  split at h
  · cases h
  · next b hb =>
    refine ⟨b, hb, ?_⟩
    have h1 := C07.assembliesFused_perm input b outs stats h
    have h2 : ((outs.flatMap (·.scaffolds)).flatMap (fun s => keysOf s.rows)) =
        ((outs.flatMap (·.scaffolds)).map (·.rows)).flatMap keysOf := by rw [List.flatMap_map]
    have h3 : ((fuseByName b).flatMap (fun s => keysOf s.rows)) = ((fuseByName b).map (·.rows)).flatMap keysOf := by
      rw [List.flatMap_map]
    rw [h2]
    exact (h1.flatMap_right keysOf).trans (h3 ▸ fuse_fragments b)

/-- remapping completes on a small example: contig `c` is left over and comes out as its own scaffold -/
example : (remap [inA, inB] [ptx1] [] (some jg) 1).toOption.map
      (fun r => (r.1.flatMap (·.scaffolds)).flatMap (fun s => keysOf s.rows)) =
    some [fa.keyTuple, (['a'], 11, 20), fc.keyTuple] := by decide +kernel

/-! ## L1–L4 — the middle of `remap_to_input_assembly` and the end-to-end theorem (wave 2)

  Definitions (in `Proofs/C01MiddleBase.lean`, restated by `wfInput_iff` / `reg_iff` below):
  * `inputFrags input` — all contig fragments of the input, in order;
  * `WFInput input` (decidable) — scaffold names pairwise different, Fragment objects (`oid`) pairwise different over
    the whole input, keys `(name,start,end)` pairwise different, fragments pairwise disjoint, `start ≤ end`;
  * `Reg input b` — the registry invariant that holds from `find_assembly_overlaps` until cutting starts;
  * `covers n x f` — fragment `f` contains base `x` of the contig called `n`;
  * `storeFrags store` — the fragments held by the stored results that were appended to the build. -/

theorem wfInput_iff (input : List Scaffold) :
    WFInput input ↔
      (input.map (·.name)).Nodup ∧
      ((inputFrags input).map (·.oid)).Nodup ∧
      ((inputFrags input).map Fragment.keyTuple).Nodup ∧
      (inputFrags input).Pairwise (fun f g => f.name = g.name → f.stop < g.start ∨ g.stop < f.start) ∧
      ∀ f ∈ inputFrags input, f.start ≤ f.stop := Iff.rfl

/-- The registry invariant (before cutting no cut piece exists yet, so part (a) is simply "rows are input rows"). -/
abbrev Reg (input : List Scaffold) (b : Build) : Prop := Mid input b

/-- `Reg` spelled out:
    (c) every registered key has ≥ 1 holder and `multi` = the keys with ≥ 2 holders, without duplicates;
    (b) for every key and every result id, the id occurs in the key's holder list exactly as often as the rows of that
        result (if it was appended to the build) contain a fragment with that key — see `reg_holders_by_object` for the
        object-identity form and `reg_holder_once` for "at most once"; and in total: #holders = #stored rows with the key;
    (a) every stored result's rows are a contiguous run of the rows of an input scaffold;
    the Fragment object recorded for key `k` is a fragment of the input and has key `k`.
    (d) follows: `reg_unregistered_absent`. -/
theorem reg_iff (input : List Scaffold) (b : Build) :
    Reg input b ↔
      (RegistryInv b ∧ b.multi.Nodup) ∧
      (∀ k sid, (holders b k).count sid = holdCount b.store k sid) ∧
      (∀ k, (holders b k).length = (storeFrags b.store).countP (hasKey k)) ∧
      (∀ r ∈ b.store, ∃ sc ∈ input, r.o.rows <:+: sc.rows) ∧
      (∀ k fnd, dGet? b.found k = some fnd → fnd.fragment.keyTuple = k ∧ fnd.fragment ∈ inputFrags input) :=
  ⟨fun h => ⟨⟨h.registry, h.multiNodup⟩, h.counts, h.total, h.slices, h.foundOK⟩,
   fun ⟨⟨a, b⟩, c, d, e, f⟩ => ⟨a, b, c, d, e, f⟩⟩

/-- (b) in terms of object identity: the holder list of a registered key lists exactly the stored results (appended to
    the build) whose rows contain the recorded Fragment OBJECT, once per occurrence … -/
theorem reg_holders_by_object (input : List Scaffold) (hwf : WFInput input) (b : Build) (h : Reg input b)
    (k : Key) (fnd : Found) (hf : dGet? b.found k = some fnd) (sid : Nat) :
    (holders b k).count sid =
      match b.store[sid]? with
      | some r => (resFrags r).countP (fun g => g.oid == fnd.fragment.oid)
      | none => 0 :=
  h.holders_by_object hwf k fnd hf sid

/-- … and a result holds a key at most once, so every holder list is duplicate-free -/
theorem reg_holder_once (input : List Scaffold) (hwf : WFInput input) (b : Build) (h : Reg input b) (k : Key) (sid : Nat) :
    (holders b k).count sid ≤ 1 := by
  rw [h.counts]; exact h.holdCount_le_one hwf k sid

/-- (d): an input fragment whose key is not registered is in no stored result (it will be a left-over, S4) -/
theorem reg_unregistered_absent (input : List Scaffold) (b : Build) (h : Reg input b) (k : Key)
    (hf : dGet? b.found k = none) : ∀ g ∈ storeFrags b.store, g.keyTuple ≠ k :=
  h.unregistered_absent k hf

/-- L1 — `find_assembly_overlaps` on a fresh build establishes `Reg` (any input, any Pretext assembly). -/
theorem reg_after_find (input ptx : List Scaffold) (b b' : Build)
    (h0 : b.store = [] ∧ b.found = [] ∧ b.multi = [])
    (h : findAssemblyOverlaps input ptx b = .ok b') :
    Reg input b' ∧ b'.nextOid = b.nextOid ∧ b'.extra = b.extra ∧ b'.joinGap = b.joinGap ∧ b'.err = b.err ∧
    b'.cuts = b.cuts := by
  obtain ⟨a, c1, c2, c3, c4⟩ := reg_after_find_aux input ptx b b' h0 h
  exact ⟨a, findAssemblyOverlaps_nextOid input ptx b b' h, c1, c2, c3, c4⟩

/-- L2 — a productive round of the overhang resolver keeps `Reg`; in particular (`RegistryInv` inside `Reg`) every
    registered key keeps at least one holder — a contig is never removed from its last holder — and holder lists stay
    in step with the rows that `discard_start` / `discard_end` removed.  No key is added to or dropped from `found`,
    the recorded objects stay, no Fragment object is created. -/
theorem reg_resolver_round (input : List Scaffold) (hwf : WFInput input) (b b' : Build) (hr : Reg input b)
    (h : resolverRound b = .ok (some b')) :
    Reg input b' ∧
    (∀ k, (dGet? b'.found k).map (·.fragment) = (dGet? b.found k).map (·.fragment)) ∧
    (∀ k fnd', dGet? b'.found k = some fnd' → fnd'.scaffolds ≠ []) ∧
    b'.nextOid = b.nextOid ∧ b'.extra = b.extra ∧ b'.cuts = b.cuts := by
  obtain ⟨a, c1, c2, c3, _, _, c6, _⟩ := reg_resolver_round_aux input hwf b b' hr h
  exact ⟨a, c1, a.registry.1, c2, c3, c6⟩

/-- L2, the loop `discard_overhanging_fragments` (any fuel). -/
theorem reg_discard_overhanging (input : List Scaffold) (hwf : WFInput input) (fuel : Nat) (b b' : Build)
    (hr : Reg input b) (h : discardOverhanging fuel b = .ok b') :
    Reg input b' ∧
    (∀ k, (dGet? b'.found k).map (·.fragment) = (dGet? b.found k).map (·.fragment)) ∧
    b'.nextOid = b.nextOid ∧ b'.extra = b.extra ∧ b'.cuts = b.cuts := by
  obtain ⟨a, c1, c2, c3, _, _, c6, _⟩ := discardOverhanging_mid input hwf fuel b b' hr h
  exact ⟨a, c1, c2, c3, c6⟩

/-- L3 — `cutRemaining` on a build satisfying `Reg` (new objects get ids above the input's):
    * every row of the store is then an input fragment or a piece (sub-interval, same contig name and strand, fresh
      object id) of one;
    * every base of a contig fragment that was left in `multi` is held by exactly ONE row of the store afterwards
      (before: by as many rows as the key had holders);
    * the number of rows holding any other base is unchanged;
    * `multi` is empty, `found` untouched. -/
theorem reg_cut (input : List Scaffold) (hwf : WFInput input) (b b' : Build) (hr : Reg input b)
    (hoid : ∀ f ∈ inputFrags input, f.oid < b.nextOid) (h : cutRemaining b = .ok b') :
    b'.multi = [] ∧ b'.found = b.found ∧
    (∀ r ∈ b'.store, ∀ g ∈ fragmentsOf r.o.rows,
      g ∈ inputFrags input ∨ (b.nextOid ≤ g.oid ∧ ∃ F ∈ inputFrags input,
        F.start ≤ g.start ∧ g.stop ≤ F.stop ∧ g.start ≤ g.stop ∧ g.name = F.name ∧ g.strand = F.strand)) ∧
    (∀ k ∈ b.multi, ∀ fnd, dGet? b.found k = some fnd → ∀ x, fnd.fragment.start ≤ x → x ≤ fnd.fragment.stop →
      (storeFrags b'.store).countP (covers fnd.fragment.name x) = 1) ∧
    (∀ n x, (∀ k ∈ b.multi, ∀ fnd, dGet? b.found k = some fnd → covers n x fnd.fragment = false) →
      (storeFrags b'.store).countP (covers n x) = (storeFrags b.store).countP (covers n x)) := by
  obtain ⟨a1, a2, _, a4, a5, a6⟩ := cutRemaining_account input hwf b b' hr hoid h
  refine ⟨a1, a2, a4, ?_, a6⟩
  intro k hk fnd hf x h1 h2
  exact a5 _ x k hk fnd hf (by simp [covers, h1, h2])

/-- base `x` of contig `n` lies in the interval of the triple `t` -/
def coversK (n : Str) (x : Int) (t : Key) : Bool := decide (t.1 = n ∧ t.2.1 ≤ x ∧ x ≤ t.2.2)

/-- all `(name,start,end)` triples of all scaffolds of all output assemblies -/
def outputTriples (outs : List OutAsm) : List Key := (outs.flatMap (·.scaffolds)).flatMap (fun s => keysOf s.rows)

/-- L4, END-TO-END — for a well-formed input and ANY Pretext assembly, prefix, join gap and texel size: whenever
    `remap` completes,
    * for every contig name `n` and position `x`, the number of output fragments (over all output assemblies: primary,
      haplotypes, haplotigs, contaminants, false duplicates) containing base `x` of `n` equals the number of input
      fragments containing it — which is 1 on the input contigs and 0 elsewhere (`remap_exactly_once`,
      `remap_nothing_invented`);
    * every output fragment is a non-empty sub-interval of a fragment of the input with the same contig name. -/
theorem remap_partitions (input ptx : List Scaffold) (prefix_ : Str) (joinGap : Option Gap) (err : Int)
    (outs : List OutAsm) (stats : Stats) (hwf : WFInput input)
    (h : remap input ptx prefix_ joinGap err = .ok (outs, stats)) :
    (∀ n x, (outputTriples outs).countP (coversK n x) = ((inputFrags input).map Fragment.keyTuple).countP (coversK n x)) ∧
    (∀ t ∈ outputTriples outs, t.2.1 ≤ t.2.2 ∧
      ∃ F ∈ inputFrags input, F.name = t.1 ∧ F.start ≤ t.2.1 ∧ t.2.2 ≤ F.stop) := by
  obtain ⟨b, hb, hperm⟩ := outputs_hold_store_and_leftovers input ptx prefix_ joinGap err outs stats h
  obtain ⟨p1, p2⟩ := remapToInput_partition input ptx prefix_ joinGap err b hwf hb
  have hkeys : storeKeys b.store ++ extraKeys b.extra =
      (storeFrags b.store ++ extraFrags b.extra).map Fragment.keyTuple := by
    rw [storeKeys_eq, extraKeys_eq, List.map_append]
  have hcov : ∀ n x, (coversK n x ∘ Fragment.keyTuple) = covers n x := by
    intro n x; funext f; rfl
  constructor
  · intro n x
    unfold outputTriples
    rw [hperm.countP_eq, hkeys, List.countP_map, List.countP_map, hcov]
    exact p1 n x
  · intro t ht
    have : t ∈ storeKeys b.store ++ extraKeys b.extra := hperm.subset ht
    rw [hkeys] at this
    obtain ⟨g, hg, rfl⟩ := List.mem_map.mp this
    obtain ⟨F, hF, q1, q2, q3, q4, _⟩ := p2 g hg
    exact ⟨q3, F, hF, q4.symm, q1, q2⟩

/-- nothing is lost or duplicated: every base of every input contig fragment lies in exactly one output fragment -/
theorem remap_exactly_once (input ptx : List Scaffold) (prefix_ : Str) (joinGap : Option Gap) (err : Int)
    (outs : List OutAsm) (stats : Stats) (hwf : WFInput input)
    (h : remap input ptx prefix_ joinGap err = .ok (outs, stats))
    (F : Fragment) (hF : F ∈ inputFrags input) (x : Int) (h1 : F.start ≤ x) (h2 : x ≤ F.stop) :
    (outputTriples outs).countP (coversK F.name x) = 1 := by
  rw [(remap_partitions input ptx prefix_ joinGap err outs stats hwf h).1, List.countP_map]
  have hcov : (coversK F.name x ∘ Fragment.keyTuple) = covers F.name x := by funext f; rfl
  rw [hcov]
  exact hwf.cover_count hF (by simp [covers, h1, h2])

/-- nothing is invented: a base that is in no input fragment is in no output fragment -/
theorem remap_nothing_invented (input ptx : List Scaffold) (prefix_ : Str) (joinGap : Option Gap) (err : Int)
    (outs : List OutAsm) (stats : Stats) (hwf : WFInput input)
    (h : remap input ptx prefix_ joinGap err = .ok (outs, stats))
    (n : Str) (x : Int) (hno : ∀ F ∈ inputFrags input, ¬ (F.name = n ∧ F.start ≤ x ∧ x ≤ F.stop)) :
    ∀ t ∈ outputTriples outs, ¬ (t.1 = n ∧ t.2.1 ≤ x ∧ x ≤ t.2.2) := by
  have h0 : (outputTriples outs).countP (coversK n x) = 0 := by
    rw [(remap_partitions input ptx prefix_ joinGap err outs stats hwf h).1, List.countP_eq_zero]
    intro k hk
    obtain ⟨F, hF, rfl⟩ := List.mem_map.mp hk
    intro hc
    simp only [coversK, decide_eq_true_eq] at hc
    exact hno F hF hc
  rw [List.countP_eq_zero] at h0
  intro t ht hc
  exact h0 t ht (by simpa [coversK] using hc)

/-! ### non-vacuity: an input where the resolver discards a sliver and a contig is cut in two

  Scaffold `A` = c1:1-100, c2:1-4, c3:1-100 (no gaps), scaffold `B` = d1:1-50(−), texel size 5.
  Pretext pieces A:1-102, A:103-150, A:151-204: the sliver `c2` is found by the first two pieces, `c3` by the last two.
  The resolver removes `c2` from the second piece (2 bp of bait on either side: the tie goes to the second premise);
  `c3` stays in `multi` and is cut into c3:1-46 / c3:47-100; `d1` is left over. -/

private def xc1 : Fragment := { oid := 1, name := "c1".toList, start := 1, stop := 100, strand := 1 }
private def xc2 : Fragment := { oid := 2, name := "c2".toList, start := 1, stop := 4, strand := 1 }
private def xc3 : Fragment := { oid := 3, name := "c3".toList, start := 1, stop := 100, strand := 1 }
private def xd1 : Fragment := { oid := 4, name := "d1".toList, start := 1, stop := 50, strand := -1 }
private def xIn : List Scaffold :=
  [{ name := ['A'], rows := [.frag xc1, .frag xc2, .frag xc3] }, { name := ['B'], rows := [.frag xd1] }]
private def xpf (oid : Nat) (s e : Int) : Row :=
  .frag { oid := oid, name := ['A'], start := s, stop := e, strand := 1, tags := [sPainted] }
private def xPtx : List Scaffold :=
  [{ name := "S1".toList, rows := [xpf 10 1 102] }, { name := "S2".toList, rows := [xpf 11 103 150] },
   { name := "S3".toList, rows := [xpf 12 151 204] }]

/-- the input is well-formed (decided), an input with an object used twice is not -/
example : WFInput xIn := by decide
example : ¬ WFInput [{ name := ['A'], rows := [.frag xc1, .frag xc1] }] := by decide

/-- find → resolver loop → cutting, as `remap_to_input_assembly` chains them -/
private def xRun : R (Build × Build × Build) := do
  let b1 ← findAssemblyOverlaps xIn xPtx (freshBuild xIn [] (some jg) 5)
  let b2 ← discardOverhanging (totalRows b1.store + 2) b1
  let b3 ← cutRemaining b2
  pure (b1, b2, b3)

set_option synthInstance.maxSize 1024 in
private theorem xRun_values :
    xRun.toOption.map (fun t =>
      ((t.1.multi, t.1.found.map (fun e => (e.1, e.2.scaffolds))),
       (t.2.1.multi, t.2.1.found.map (fun e => (e.1, e.2.scaffolds))),
       t.2.1.store.map (fun r => keysOf r.o.rows), t.2.2.store.map (fun r => keysOf r.o.rows))) =
    some (([xc2.keyTuple, xc3.keyTuple], [(xc1.keyTuple, [0]), (xc2.keyTuple, [0, 1]), (xc3.keyTuple, [1, 2])]),
          ([xc3.keyTuple], [(xc1.keyTuple, [0]), (xc2.keyTuple, [0]), (xc3.keyTuple, [1, 2])]),
          [[xc1.keyTuple, xc2.keyTuple], [xc3.keyTuple], [xc3.keyTuple]],
          [[xc1.keyTuple, xc2.keyTuple], [("c3".toList, 1, 46)], [("c3".toList, 47, 100)]]) := by
  decide +kernel

/-- `Reg` holds after the search (two keys in `multi`), after the resolver (one left: two pieces share contig `c3`), and
    cutting then leaves every base of `c3` in exactly one stored row -/
example : ∃ b1 b2 b3,
    findAssemblyOverlaps xIn xPtx (freshBuild xIn [] (some jg) 5) = .ok b1 ∧
    discardOverhanging (totalRows b1.store + 2) b1 = .ok b2 ∧ cutRemaining b2 = .ok b3 ∧
    Reg xIn b1 ∧ b1.multi = [xc2.keyTuple, xc3.keyTuple] ∧
    Reg xIn b2 ∧ b2.multi = [xc3.keyTuple] ∧ holders b2 xc3.keyTuple = [1, 2] ∧
    (∀ x, 1 ≤ x → x ≤ 100 → (storeFrags b3.store).countP (covers "c3".toList x) = 1) := by
  have hv := xRun_values
  unfold xRun at hv
  simp only [bind, Except.bind] at hv
  split at hv
  · simp [Except.toOption] at hv
  · next b1 hb1 =>
    split at hv
    · simp [Except.toOption] at hv
    · next b2 hb2 =>
      split at hv
      · simp [Except.toOption] at hv
      · next b3 hb3 =>
        simp only [pure, Except.pure, Except.toOption, Option.map_some, Option.some.injEq, Prod.mk.injEq] at hv
        obtain ⟨⟨m1, _⟩, ⟨m2, f2⟩, _, _⟩ := hv
        have hwf : WFInput xIn := by decide
        obtain ⟨r1, n1, _⟩ := reg_after_find xIn xPtx _ b1 ⟨rfl, rfl, rfl⟩ hb1
        obtain ⟨r2, _, n2, _⟩ := reg_discard_overhanging xIn hwf _ b1 b2 r1 hb2
        have hoid : ∀ f ∈ inputFrags xIn, f.oid < b2.nextOid := by
          rw [n2, n1]; decide
        have hf3 : ∃ fnd, dGet? b2.found xc3.keyTuple = some fnd ∧ fnd.scaffolds = [1, 2] := by
          have hmem : xc3.keyTuple ∈ b2.multi := by rw [m2]; simp
          have h2 := (r2.registry.2 _).mp hmem
          cases hd : dGet? b2.found xc3.keyTuple with
          | none => simp [holders, hd] at h2
          | some fnd =>
            refine ⟨fnd, rfl, ?_⟩
            have hmm := dGet?_mem _ _ _ hd
            have : (xc3.keyTuple, fnd.scaffolds) ∈ b2.found.map (fun e => (e.1, e.2.scaffolds)) :=
              List.mem_map.mpr ⟨_, hmm, rfl⟩
            rw [f2] at this
            simp [Fragment.keyTuple, xc1, xc2, xc3] at this
            exact this
        obtain ⟨fnd, hd, hsc⟩ := hf3
        have hfr : fnd.fragment = xc3 := by
          obtain ⟨a1, a2⟩ := r2.foundOK _ _ hd
          exact hwf.key_inj a2 (by decide) a1
        refine ⟨b1, b2, b3, hb1, hb2, hb3, r1, m1, r2, m2, by simp [holders, hd, hsc], ?_⟩
        intro x h1 h2
        have := (reg_cut xIn hwf b2 b3 r2 hoid hb3).2.2.2.1 xc3.keyTuple (by rw [m2]; simp) fnd hd x
          (by rw [hfr]; exact h1) (by rw [hfr]; exact h2)
        rw [hfr] at this; exact this

/-- end to end on the same input: the output triples, and the instance of `remap_exactly_once` for base 46/47 of `c3` -/
private theorem xRemap_triples :
    (remap xIn xPtx [] (some jg) 5).toOption.map (fun r => outputTriples r.1) =
      some [xc1.keyTuple, xc2.keyTuple, ("c3".toList, 47, 100), ("c3".toList, 1, 46), xd1.keyTuple] := by
  decide +kernel

example : ∃ outs stats, remap xIn xPtx [] (some jg) 5 = .ok (outs, stats) ∧
    (outputTriples outs).countP (coversK "c3".toList 46) = 1 ∧ (outputTriples outs).countP (coversK "c3".toList 47) = 1 := by
  have hv := xRemap_triples
  cases hr : remap xIn xPtx [] (some jg) 5 with
  | error e => rw [hr] at hv; simp [Except.toOption] at hv
  | ok r =>
    obtain ⟨outs, stats⟩ := r
    refine ⟨outs, stats, rfl, ?_, ?_⟩
    · exact remap_exactly_once xIn xPtx [] (some jg) 5 outs stats (by decide) hr xc3 (by decide) 46 (by decide) (by decide)
    · exact remap_exactly_once xIn xPtx [] (some jg) 5 outs stats (by decide) hr xc3 (by decide) 47 (by decide) (by decide)

set_option synthInstance.maxSize 1024 in
/-- L2 is not vacuous: on the input above the first resolver round is productive (it removes the sliver `c2` from the
    second piece) and leaves one key in `multi` -/
example : ((findAssemblyOverlaps xIn xPtx (freshBuild xIn [] (some jg) 5)) >>= resolverRound).toOption.map
    (fun (o : Option Build) => o.map (fun b => (b.multi, holders b xc2.keyTuple))) = some (some ([xc3.keyTuple], [0])) := by
  decide +kernel

/-! ### why the key-distinctness part of `WFInput` is needed (a finding, not a proof obligation)

  The registry is keyed by `(name,start,end)`.  If the input lists the same contig interval twice (here: scaffolds `A`
  and `B` both consist of c:1-10, as two different Fragment objects) and the Pretext assembly places only `A`, the copy
  in `B` counts as "found" and is neither placed nor left over: `remap` completes and the output holds c:1-10 ONCE.
  No error is raised.  Such an input violates `WFInput` (duplicate key / overlapping fragments). -/
private def yIn : List Scaffold :=
  [{ name := ['A'], rows := [.frag { oid := 1, name := ['c'], start := 1, stop := 10, strand := 1 }] },
   { name := ['B'], rows := [.frag { oid := 2, name := ['c'], start := 1, stop := 10, strand := 1 }] }]
private def yPtx : List Scaffold := [{ name := "S1".toList, rows := [xpf 10 1 10] }]
example : ¬ WFInput yIn := by decide
example : (remap yIn yPtx [] (some jg) 5).toOption.map (fun r => outputTriples r.1) = some [(['c'], 1, 10)] ∧
    ((inputFrags yIn).map Fragment.keyTuple) = [(['c'], 1, 10), (['c'], 1, 10)] := by
  constructor <;> decide +kernel

end AgpTpf.C01
