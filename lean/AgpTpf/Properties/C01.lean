/-
  C01 — Remapping conserves sequence: outputs exactly partition the input contigs.

  The end-to-end theorem (`remap … = .ok outs → the output fragments partition the input contigs`) is a staged
  proof.  PROVED here, each at full strength for its stage (no `_partial` theorems in this file):

    S1  `qc_tiles`               the cut QC (`qc_sub_fragments`) passing ⇒ the sub-fragments, sorted, abut consecutively on
                                 one contig, their lengths sum to the original's, and — when they lie inside the original
                                 (S2) — every base of the original is in exactly one sub-fragment, no base outside is covered.
    S2  `trim_within`            `trim_fragment` only ever shrinks: the new fragment is a valid sub-interval of the trimmed
                                 one, same contig name and strand, for ARBITRARY overhang values.
    S1+S2 `cut_fragments_tiles`  whenever `cut_fragments` returns, the pieces it made tile the cut contig fragment exactly.
    S3  `fuse_fragments`         `scaffolds_fused_by_name` conserves the multiset of `(name,start,end)` triples
        `fuse_gaps`              and only inserts the join gap / the recorded input gap.
    S4  `missing_rows_exact`     the left-over scaffold holds exactly the input fragments not in `found`, in order, each once;
                                 separators are the input gap row in front of the fragment or the join gap; no new adjacency.
    S5  `store_found_registers`  `store_fragments_found`: holder lists grow by exactly the occurrences, `multi` = keys with ≥ 2
                                 holders is an invariant.

    L1+S5 `find_assembly_overlaps_registry`  after `find_assembly_overlaps`: stored rows are contiguous runs of input rows,
                                 holder lists = exactly the stored results containing the key, registry invariant holds.
    S3+L4 `outputs_hold_store_and_leftovers` END-TO-END back half: whenever `remap` completes, the triples over all scaffolds
                                 of all output assemblies = triples of (stored results ∪ left-over scaffolds) of the build
                                 returned by `remap_to_input_assembly` (fusing / splitting / naming / sorting conserve).

  STILL MISSING for the full end-to-end statement (one link, not proved here):
    L2/L3  the middle of `remap_to_input_assembly`: that the resolver loop (`resolverRound`/`applyFixBookkeeping`) and
        `cutRemaining` keep "holders of key k = stored results whose rows contain that fragment" (established by
        `find_assembly_overlaps_registry`) in step with the rows that `discardStart/End` remove and `trimFragment` rewrites,
        so that after cutting every input base is held by exactly one stored row or is left over (S4).  It needs an input
        well-formedness hypothesis (distinct `(name,start,end)` keys and distinct object ids over the input fragments:
        the registry is keyed by the triple but the resolver compares object identity) and then chains S1/S2
        (`cut_fragments_tiles`), S4 and `outputs_hold_store_and_leftovers`.
-/
import AgpTpf.Proofs.C01Qc
import AgpTpf.Proofs.C01Store
import AgpTpf.Proofs.C01Missing
import AgpTpf.Proofs.C01Fuse
import AgpTpf.Proofs.C01Cut
import AgpTpf.Proofs.C07Lemmas
import AgpTpf.Proofs.C01Pipeline
import AgpTpf.Proofs.C07Pipeline
namespace AgpTpf.C01
open AgpTpf
open AgpTpf.C07 (adjPairs)

/-! ## S1 — the cut QC implies an exact tiling -/

/-- `qc_sub_fragments` passing, for valid sub-fragments (which `Fragment.__init__` guarantees):
    * there is at least one sub-fragment; sorted by `(start, end)` they are a permutation of `subs` in which every
      element starts on the base after its predecessor ends, on the same contig;
    * the lengths sum to the original's length; all sub-fragments have one name;
    * IF every sub-fragment lies within `[f.start, f.stop]` (S2), then every base of `f` lies in exactly one
      sub-fragment and no base outside `f` lies in any. -/
theorem qc_tiles (f : Fragment) (subs : List Fragment) (hv : ∀ s ∈ subs, s.start ≤ s.stop)
    (h : qcPasses f subs = true) :
    subs ≠ [] ∧
    (sortedSubs subs).Perm subs ∧ AdjRel Follows (sortedSubs subs) ∧
    sumInts (subs.map Fragment.length) = f.length ∧
    (∀ s ∈ subs, ∀ t ∈ subs, s.name = t.name) ∧
    ((∀ s ∈ subs, f.start ≤ s.start ∧ s.stop ≤ f.stop) →
      ∀ x, coverCount subs x = if f.start ≤ x ∧ x ≤ f.stop then 1 else 0) :=
  qc_tiles_aux f subs hv h

/-- "exactly one" spelled out: inside `f` some sub-fragment contains the base, and any two sub-fragments (by position
    in `subs`) containing it are the same one -/
theorem qc_tiles_unique (f : Fragment) (subs : List Fragment) (hv : ∀ s ∈ subs, s.start ≤ s.stop)
    (h : qcPasses f subs = true) (hin : ∀ s ∈ subs, f.start ≤ s.start ∧ s.stop ≤ f.stop)
    (x : Int) (hx : f.start ≤ x ∧ x ≤ f.stop) :
    (∃ s ∈ subs, s.start ≤ x ∧ x ≤ s.stop) ∧
    ∀ (i j : Nat) (s t : Fragment), subs[i]? = some s → subs[j]? = some t →
      (s.start ≤ x ∧ x ≤ s.stop) → (t.start ≤ x ∧ x ≤ t.stop) → i = j :=
  coverCount_one_unique subs x (by rw [(qc_tiles f subs hv h).2.2.2.2.2 hin x, if_pos hx])

private def q0 : Fragment := { name := ['c'], start := 1, stop := 30, strand := 1 }
private def q1 : Fragment := { name := ['c'], start := 11, stop := 20, strand := 1 }
private def q2 : Fragment := { name := ['c'], start := 1, stop := 10, strand := 1 }
private def q3 : Fragment := { name := ['c'], start := 21, stop := 30, strand := 1 }
example : qcPasses q0 [q1, q2, q3] = true ∧ (∀ s ∈ [q1, q2, q3], s.start ≤ s.stop) ∧
    (∀ s ∈ [q1, q2, q3], q0.start ≤ s.start ∧ s.stop ≤ q0.stop) := by decide
/-- the QC does reject an overlap, a hole, and a piece that is too short -/
example : qcPasses q0 [q1, q2, { q3 with start := 20 }] = false ∧ qcPasses q0 [q2, q3] = false ∧
    qcPasses q0 [q1, q2, { q3 with stop := 29 }] = false := by decide

/-! ## S2 — trimming only shrinks -/

/-- `trim_fragment(trim, keep_start, keep_end)` returning: the fragment it creates lies within `trim`, is valid, and
    keeps contig name and strand — whatever `o.startOverhang` / `o.endOverhang` are (no hypothesis on `o`). -/
theorem trim_within (o : OverlapResult) (trim : Fragment) (ks ke : Bool) (oid : Nat)
    (o' : OverlapResult) (new : Fragment) (h : o.trimFragment trim ks ke oid = .ok (o', new)) :
    trim.start ≤ new.start ∧ new.stop ≤ trim.stop ∧ new.start ≤ new.stop ∧
    new.name = trim.name ∧ new.strand = trim.strand ∧ new.oid = oid :=
  trim_within_aux o trim ks ke oid o' new h

private def t0 : Fragment := { oid := 7, name := ['c'], start := 1, stop := 100, strand := 1 }
private def o0 : OverlapResult :=
  { bait := { name := ['c'], start := 41, stop := 80, strand := 1 }, start := 1, stop := 100, rows := [.frag t0] }
example : (o0.trimFragment t0 false false 9).toOption.map (fun p => (p.2.start, p.2.stop, p.2.oid)) = some (41, 80, 9) := by
  decide

/-! ## S1 + S2 — `cut_fragments` -/

/-- Whenever `cut_fragments` returns for a registry entry, the sub-fragments it created (one per holding result,
    exposed by the specification function `cutSubs`) tile the cut fragment exactly: each is a valid sub-interval of it
    on the same contig and strand, and every base of the fragment is in exactly one of them. -/
theorem cut_fragments_tiles (b b' : Build) (fnd : Found) (h : cutFragments b fnd = .ok b') :
    ∃ subs, cutSubs b fnd = .ok subs ∧ subs.length = fnd.scaffolds.length ∧
      b'.cuts = b.cuts + ((subs.length : Int) - 1) ∧
      (∀ s ∈ subs, fnd.fragment.start ≤ s.start ∧ s.stop ≤ fnd.fragment.stop ∧ s.start ≤ s.stop ∧
        s.name = fnd.fragment.name ∧ s.strand = fnd.fragment.strand) ∧
      ∀ x, coverCount subs x = if fnd.fragment.start ≤ x ∧ x ≤ fnd.fragment.stop then 1 else 0 :=
  cut_fragments_tiles_aux b b' fnd h

/-! ## S3 — fusing conserves fragments -/

/-- The multiset of `(name, start, end)` triples over all fused scaffolds equals that of the rows of all results that
    were added to the build (`storeKeys`) together with all left-over scaffolds (`extraKeys`).
    (`to_scaffold` reverses row order and negates strands, so conservation is on triples.) -/
theorem fuse_fragments (b : Build) :
    ((fuseByName b).flatMap (fun s => keysOf s.rows)).Perm (storeKeys b.store ++ extraKeys b.extra) :=
  fuseByName_keys b

/-- where a gap row of a fused scaffold can come from -/
def GapSrc (b : Build) (g : Gap) : Prop :=
  (∃ r ∈ b.store, r.added = true ∧ Row.gap g ∈ r.o.rows) ∨
  (∃ e ∈ b.extra, Row.gap g ∈ e.1.rows) ∨
  b.joinGap = some g ∨
  (∃ e ∈ b.extra, ∃ prev, e.2 = some (prev, some g))

/-- every gap row of a fused scaffold is a gap row of one of its parts, the join gap, or the input gap recorded with a
    left-over scaffold's predecessor; and no fused scaffold is empty -/
theorem fuse_gaps (b : Build) : ∀ s ∈ fuseByName b, (∀ g, Row.gap g ∈ s.rows → GapSrc b g) ∧ s.rows ≠ [] := by
  apply fuseByName_all (fun rows => ∀ g, Row.gap g ∈ rows → GapSrc b g)
  · intro r hr hadd _
    have part : ∀ g, Row.gap g ∈ r.o.toScaffoldRows → GapSrc b g := fun g hg =>
      Or.inl ⟨r, hr, hadd, (gap_mem_toScaffoldRows _ _).mp hg⟩
    refine ⟨fun g hg => ?_, fun built _ hb g hg => ?_⟩
    · rcases mem_appendRows _ _ _ _ hg with h | h | ⟨gg, h1, h2⟩
      · cases h
      · exact part g h
      · cases h2; exact Or.inr (Or.inr (Or.inl h1))
    · rcases mem_appendRows _ _ _ _ hg with h | h | ⟨gg, h1, h2⟩
      · exact hb g h
      · exact part g h
      · cases h2; exact Or.inr (Or.inr (Or.inl h1))
  · intro e he _
    have part : ∀ g, Row.gap g ∈ e.1.rows → GapSrc b g := fun g hg => Or.inr (Or.inl ⟨e, he, hg⟩)
    have sep : ∀ built gg, gapBeforeLeftover b.joinGap built e.2 = some gg → GapSrc b gg := by
      intro built gg h
      rcases C07.gapBeforeLeftover_source _ _ _ _ h with h | ⟨prev, h⟩
      · exact Or.inr (Or.inr (Or.inl h))
      · exact Or.inr (Or.inr (Or.inr ⟨e, he, prev, h⟩))
    refine ⟨fun g hg => ?_, fun built _ hb g hg => ?_⟩
    · rcases mem_appendRows _ _ _ _ hg with h | h | ⟨gg, h1, h2⟩
      · cases h
      · exact part g h
      · cases h2; exact sep _ _ h1
    · rcases mem_appendRows _ _ _ _ hg with h | h | ⟨gg, h1, h2⟩
      · exact hb g h
      · exact part g h
      · cases h2; exact sep _ _ h1

private def jg : Gap := { length := 200, gapType := "scaffold".toList }
private def fa : Fragment := { oid := 1, name := ['a'], start := 1, stop := 10, strand := 1 }
private def fb : Fragment := { oid := 2, name := ['b'], start := 1, stop := 20, strand := 1 }
private def fc : Fragment := { oid := 3, name := ['c'], start := 1, stop := 5, strand := 1 }
private def bx : Build :=
  { namer := { autosomePrefix := [] }, nextOid := 4, joinGap := some jg, err := 1,
    store := [ { o := { bait := { fa with strand := -1 }, start := 1, stop := 10, rows := [.frag fa], name := ['S'] }, added := true },
               { o := { bait := fb, start := 1, stop := 20, rows := [.frag fb], name := ['S'] }, added := true } ],
    extra := [ ({ name := ['S'], rows := [.frag fc] }, none) ] }
/-- three parts with the same `(tag, haplotype, name)` key are fused into one scaffold with two join gaps -/
example : (fuseByName bx).map (·.rows) = [[.frag fa.reverse, .gap jg, .frag fb, .gap jg, .frag fc]] := by decide

/-! ## S4 — left-over rows -/

/-- `missingRows` returning `(out, first)` for one input scaffold's `rows`:
    * the fragments of `out` are exactly the fragments of `rows` whose key is not in `found`, in order, each once;
    * every gap row of `out` is the input gap row directly in front of such a fragment, or the join gap (`GapOK`);
    * no new adjacency: fragments directly adjacent in `out` were directly adjacent rows of `rows`;
    * `out` neither starts nor ends with a gap;
    * `first` is the row index of the first left-over fragment. -/
theorem missing_rows_exact (b : Build) (rows out : List Row) (first : Option Nat)
    (h : missingRows b rows = .ok (out, first)) :
    fragmentsOf out = (fragmentsOf rows).filter (fun f => !dHas b.found f.keyTuple) ∧
    (∀ g, Row.gap g ∈ out → GapOK b rows g) ∧
    (∀ pr ∈ adjPairs out, pr ∈ adjPairs rows) ∧
    (∀ g, out.head? ≠ some (.gap g)) ∧ (∀ g, out.getLast? ≠ some (.gap g)) ∧
    first = (((List.range rows.length).zip rows).find? (isMissing b)).map Prod.fst :=
  missingRows_spec b rows out first h

/-- every gap of `out` is in particular a gap row of `rows` or the join gap (the form asked for in the task) -/
theorem missing_rows_gaps (b : Build) (rows out : List Row) (first : Option Nat)
    (h : missingRows b rows = .ok (out, first)) (g : Gap) (hg : Row.gap g ∈ out) :
    Row.gap g ∈ rows ∨ b.joinGap = some g := by
  rcases (missing_rows_exact b rows out first h).2.1 g hg with ⟨i, _, _, _, h3⟩ | h
  · exact Or.inl (List.mem_of_getElem? h3)
  · exact Or.inr h

private def g5 : Gap := { length := 5, gapType := ['u'] }
private def bm : Build :=
  { namer := { autosomePrefix := [] }, nextOid := 4, joinGap := some jg, err := 1,
    found := [(fb.keyTuple, { fragment := fb, scaffolds := [0] })] }
example : missingRows bm [.frag fa, .gap g5, .frag fb, .frag fc] = .ok ([.frag fa, .gap jg, .frag fc], some 0) := by decide
example : missingRows bm [.frag fb, .frag fa, .frag fb, .gap g5, .frag fc] = .ok ([.frag fa, .gap g5, .frag fc], some 1) := by
  decide
/-- without a join gap a needed separator is an error, not a silent gapless join -/
example : missingRows { bm with joinGap := none } [.frag fa, .frag fb, .frag fc] = .error .attribute := by decide

/-! ## S5 — the registry of found fragments -/

/-- `store_fragments_found(sid, frags)`:
    * the holder list of every key grows by exactly one `sid` per occurrence of the key in `frags` (appended, in order);
    * afterwards a key is registered iff it was before or occurs in `frags` — so every fragment of `frags` is registered;
    * the registry invariant (registered keys have ≥ 1 holder; `multi` = exactly the keys with ≥ 2 holders) is preserved;
    * nothing else of the build changes. -/
theorem store_found_registers (b : Build) (sid : Nat) (frags : List Fragment) :
    let b' := storeFragmentsFound b sid frags
    (∀ k, holders b' k = holders b k ++ List.replicate (frags.countP (fun f => decide (f.keyTuple = k))) sid) ∧
    (∀ k, dHas b'.found k = (dHas b.found k || frags.any (fun f => decide (f.keyTuple = k)))) ∧
    (∀ f ∈ frags, dHas b'.found f.keyTuple = true ∧ sid ∈ holders b' f.keyTuple) ∧
    (RegistryInv b → RegistryInv b') ∧
    (b'.store = b.store ∧ b'.extra = b.extra ∧ b'.namer = b.namer ∧ b'.cuts = b.cuts ∧ b'.nextOid = b.nextOid ∧
      b'.joinGap = b.joinGap ∧ b'.err = b.err) := by
  intro b'
  have hb' : b' = frags.foldl (storeOne sid) b := rfl
  have hreg : ∀ k, dHas b'.found k = (dHas b.found k || frags.any (fun f => decide (f.keyTuple = k))) := by
    intro k; unfold dHas; rw [hb']; exact foldl_storeOne_registered sid frags b k
  have hhold : ∀ k, holders b' k = holders b k ++ List.replicate (frags.countP (fun f => decide (f.keyTuple = k))) sid := by
    intro k; rw [hb']; exact foldl_storeOne_holders sid frags b k
  refine ⟨hhold, hreg, ?_, ?_, ?_⟩
  · intro f hf
    constructor
    · rw [hreg]
      have : frags.any (fun f' => decide (f'.keyTuple = f.keyTuple)) = true :=
        List.any_eq_true.mpr ⟨f, hf, by simp⟩
      rw [this]; simp
    · rw [hhold]
      apply List.mem_append_right
      have : 0 < frags.countP (fun f' => decide (f'.keyTuple = f.keyTuple)) :=
        List.countP_pos_iff.mpr ⟨f, hf, by simp⟩
      rw [List.mem_replicate]
      exact ⟨by omega, rfl⟩
  · intro h; rw [hb']; exact foldl_storeOne_inv sid frags b h
  · rw [hb']; exact foldl_storeOne_other_fields sid frags b

/-- the empty registry satisfies the invariant -/
theorem registryInv_empty (b : Build) (h1 : b.found = []) (h2 : b.multi = []) : RegistryInv b := by
  constructor
  · intro k fnd h; rw [h1] at h; simp [dGet?] at h
  · intro k; simp [h2, holders, h1, dGet?]

private def b0 : Build := { namer := { autosomePrefix := [] }, nextOid := 4, joinGap := some jg, err := 1 }
example : (storeFragmentsFound (storeFragmentsFound b0 0 [fa, fb]) 1 [fb, fc]).multi = [fb.keyTuple] ∧
    holders (storeFragmentsFound (storeFragmentsFound b0 0 [fa, fb]) 1 [fb, fc]) fb.keyTuple = [0, 1] := by decide

/-! ## L1 + S5 at pipeline level — what `find_assembly_overlaps` establishes -/

/-- After `find_assembly_overlaps` on a fresh build (any input, any Pretext assembly):
    * every stored result's rows are a contiguous run of the rows of an input scaffold with the bait's name (L1);
    * the registry invariant holds (S5), and for EVERY key the recorded holder list is exactly the list of stored
      results (appended to the build) whose rows contain a fragment with that key, in store order, once per occurrence;
    * results appended to the build are non-empty; no left-over scaffolds exist yet, configuration fields are unchanged. -/
theorem find_assembly_overlaps_registry (input ptx : List Scaffold) (b b' : Build)
    (h0 : b.store = [] ∧ b.found = [] ∧ b.multi = [])
    (h : findAssemblyOverlaps input ptx b = .ok b') :
    RegistryInv b' ∧
    (∀ k, holders b' k = holdersSpec b'.store k) ∧
    (∀ r ∈ b'.store, ∃ sc ∈ input, r.o.rows <:+: sc.rows ∧ sc.name = r.o.bait.name) ∧
    (∀ r ∈ b'.store, r.added = true → r.o.rows ≠ []) ∧
    b'.extra = b.extra ∧ b'.joinGap = b.joinGap ∧ b'.err = b.err ∧ b'.cuts = b.cuts := by
  obtain ⟨e1, e2, e3⟩ := h0
  have hinv : PInv input b := by
    refine ⟨registryInv_empty b e2 e3, ?_, ?_, ?_⟩
    · intro k; simp [holders, e2, dGet?, holdersSpec, e1, holdersFrom]
    · intro r hr; rw [e1] at hr; cases hr
    · intro r hr; rw [e1] at hr; cases hr
  obtain ⟨p, c1, c2, c3, c4⟩ := findAssemblyOverlaps_inv input ptx b b' hinv h
  exact ⟨p.registry, p.holders_eq, p.slices, p.added_iff, c1, c2, c3, c4⟩

private def inA : Scaffold := { name := ['A'], rows := [.frag fa, .gap g5, .frag { fb with name := ['a'], start := 11 }] }
private def inB : Scaffold := { name := ['B'], rows := [.frag fc] }
private def ptx1 : Scaffold :=
  { name := ['S','1'], rows := [.frag { oid := 10, name := ['A'], start := 1, stop := 25, strand := 1, tags := [sPainted] }] }
/-- the hypotheses are satisfiable: a fresh build, and the search completes (one stored result holding two contigs) -/
example : (b0.store = [] ∧ b0.found = [] ∧ b0.multi = []) ∧
    (findAssemblyOverlaps [inA, inB] [ptx1] b0).toOption.map (fun b => b.store.length) = some 1 ∧
    (findAssemblyOverlaps [inA, inB] [ptx1] b0).toOption.map (fun b => b.found.map (·.1)) =
      some [fa.keyTuple, (['a'], 11, 20)] ∧
    (findAssemblyOverlaps [inA, inB] [ptx1] b0).toOption.map (fun b => b.multi) = some [] := by
  refine ⟨⟨rfl, rfl, rfl⟩, ?_, ?_, ?_⟩ <;> decide +kernel

/-! ## S3 + L4 — the back half of the pipeline conserves fragments -/

/-- Whenever `remap` completes: there is the build `b` that `remap_to_input_assembly` returned, and the multiset of
    `(name, start, end)` triples over ALL scaffolds of ALL output assemblies equals the triples held by the stored
    results that were appended to the build together with the left-over scaffolds.  Fusing, the split into assemblies,
    chromosome naming and sorting lose, duplicate and invent nothing. -/
theorem outputs_hold_store_and_leftovers (input ptx : List Scaffold) (prefix_ : Str) (joinGap : Option Gap) (err : Int)
    (outs : List OutAsm) (stats : Stats) (h : remap input ptx prefix_ joinGap err = .ok (outs, stats)) :
    ∃ b, remapToInput input ptx prefix_ joinGap err = .ok b ∧
      (((outs.flatMap (·.scaffolds)).flatMap (fun s => keysOf s.rows)).Perm (storeKeys b.store ++ extraKeys b.extra)) := by
  unfold remap at h
  simp only [bind, Except.bind] at h
  split at h
  · cases h
  · next b hb =>
    refine ⟨b, hb, ?_⟩
    have h1 := C07.assembliesFused_perm input b outs stats h
    have h2 : ((outs.flatMap (·.scaffolds)).flatMap (fun s => keysOf s.rows)) =
        ((outs.flatMap (·.scaffolds)).map (·.rows)).flatMap keysOf := by rw [List.flatMap_map]
    have h3 : ((fuseByName b).flatMap (fun s => keysOf s.rows)) = ((fuseByName b).map (·.rows)).flatMap keysOf := by
      rw [List.flatMap_map]
    rw [h2]
    exact (h1.flatMap_right keysOf).trans (h3 ▸ fuse_fragments b)

/-- remapping completes on a small example: contig `c` is left over and comes out as its own scaffold -/
example : (remap [inA, inB] [ptx1] [] (some jg) 1).toOption.map
      (fun r => (r.1.flatMap (·.scaffolds)).flatMap (fun s => keysOf s.rows)) =
    some [fa.keyTuple, (['a'], 11, 20), fc.keyTuple] := by decide +kernel

end AgpTpf.C01
