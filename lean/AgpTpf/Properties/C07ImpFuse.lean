/-
  C07 / C09 / C01 / T1c — the model's `fuseByName` (Model/Remap.lean) IS the source's `BuildAssembly.scaffolds_fused_by_name`
  (assembly/build_assembly.py) as translated by `harness/translate_imp.py` into `Gen.Imp.BuildAssembly_scaffolds_fused_by_name`
  (the whole generator body; result `(store, heap_b, yielded)`).  Helper lemmas: Proofs/ImpFuse.lean.

  Conventions.  `self.scaffolds` is a list of `PyRt.BuiltRef` (`.res sid` = the OverlapResult `sid` of the store, `.lo r` = the left-over
  Scaffold object `r` of the arena `heap_lo`); the Scaffold objects being built live in the arena `heap_b`; the generator yields references
  into it, in dict order.  For a model state `b`: `heap_lo = b.extra.map loSrc` (`loSrc e = (e.1, e.2.map predToRows)`, the model's left-over
  as `add_missing_scaffolds_from_input` stores it — `C01ImpMissing`), and `self.scaffolds` = the added results in store order, then the
  left-overs (phase 1 appends the left-overs last).

  The latent re-binding.  `for gap in self.gaps_before_leftover(...)` RE-BINDS the local `gap` (initially `self.default_gap`) and Python
  keeps the loop variable after the loop: an OverlapResult processed AFTER a left-over with a non-empty `gaps_before_leftover` would be
  appended with the last such row instead of the default gap.  `Proofs/ImpFuse.lean` states what one pass does for any order (`stepSrc`);
  here: the tie for the order the program produces, the order-generic statement (all OverlapResults before all left-overs), that the source
  never raises in any order, and a concrete run in which the re-binding is observed.
-/
import AgpTpf.Gen.Imp
import AgpTpf.Proofs.ImpFuse
namespace AgpTpf.C07
open AgpTpf ImpFuse
open AgpTpf.ImpMissing (loSrc)

/-- `scaffolds_fused_by_name` on a model state: never raises (`to_scaffold`, `append_scaffold`, `gaps_before_leftover` on stored
    `input_predecessor`s cannot), leaves the store alone, the arena of built Scaffold objects IS the model's `fuseByName b` and the
    references are yielded in allocation (= dict) order -/
theorem scaffolds_fused_by_name_is_source (b : Build) :
    Gen.Imp.BuildAssembly_scaffolds_fused_by_name b.store (b.extra.map loSrc) b.joinGap
        (((List.range b.store.length).filter (fun sid => (b.store.getD sid default).added)).map PyRt.BuiltRef.res
          ++ (List.range b.extra.length).map PyRt.BuiltRef.lo)
      = .ok (b.store, fuseByName b, List.range (fuseByName b).length) := by
  rw [fused_ordered, fuseByName_eq]
  simp only [List.length_map]
  rfl

/-- … so the Scaffold objects the generator yields are exactly the model's `fuseByName b`, in order -/
theorem scaffolds_fused_by_name_yields (b : Build) :
    (Gen.Imp.BuildAssembly_scaffolds_fused_by_name b.store (b.extra.map loSrc) b.joinGap
        (((List.range b.store.length).filter (fun sid => (b.store.getD sid default).added)).map PyRt.BuiltRef.res
          ++ (List.range b.extra.length).map PyRt.BuiltRef.lo)).map (fun out => out.2.2.map (PyRt.bsGet out.2.1))
      = .ok (fuseByName b) := by
  rw [scaffolds_fused_by_name_is_source]
  exact congrArg Except.ok (range_map_bsGet _)

/-- the order hypothesis made explicit: for ANY store, left-overs and lists of references in which all OverlapResults come before all
    left-overs, the source computes the order-respecting model fold `fuseRefs` (Proofs/ImpFuse.lean: every OverlapResult appended with
    the JOIN gap, every left-over with `gapsBeforeLeftover`) -/
theorem scaffolds_fused_by_name_ordered (store : List Res) (extra : List (Scaffold × Option (Fragment × List Gap)))
    (joinGap : Option Gap) (sids rs : List Nat) :
    Gen.Imp.BuildAssembly_scaffolds_fused_by_name store (extra.map loSrc) joinGap
        (sids.map PyRt.BuiltRef.res ++ rs.map PyRt.BuiltRef.lo)
      = .ok (store, (fuseRefs store extra joinGap (sids.map .res ++ rs.map .lo) []).map (·.2),
          List.range (fuseRefs store extra joinGap (sids.map .res ++ rs.map .lo) []).length) :=
  fused_ordered store extra joinGap sids rs

/-- in ANY order the source never raises and returns the store unchanged (what it builds: the fold of `ImpFuse.stepSrc`) -/
theorem scaffolds_fused_by_name_never_raises (store : List Res) (extra : List (Scaffold × Option (Fragment × List Gap)))
    (joinGap : Option Gap) (refs : List PyRt.BuiltRef) :
    ∃ heap_b yielded,
      Gen.Imp.BuildAssembly_scaffolds_fused_by_name store (extra.map loSrc) joinGap refs = .ok (store, heap_b, yielded) :=
  ⟨_, _, fused_eq_fold store extra joinGap refs⟩

/-! ### a concrete run -/

def exFrag (n : Char) (a b s : Int) : Fragment := { name := [n], start := a, stop := b, strand := s }
def exJoin : Gap := { length := 200, gapType := ['s'] }
def exU7 : Gap := { length := 7, gapType := ['u'] }

/-- results 0 and 1 (the second on a minus-strand bait) are fused under the name `A`; result 2 was never added, result 3 lost its only
    row; left-over 0 follows its input neighbour `c2` (the input gap is restored), left-over 1 does not (join gap), left-over 2 starts `B` -/
def exB : Build :=
  { namer := { autosomePrefix := [] }, nextOid := 0, err := 0, joinGap := some exJoin,
    store := [
      { o := { bait := exFrag 'p' 1 10 1, start := 1, stop := 10, rows := [.frag (exFrag '1' 1 10 1)], name := ['A'], rank := 1 },
        added := true },
      { o := { bait := exFrag 'p' 11 20 (-1), start := 1, stop := 10,
               rows := [.frag (exFrag '2' 1 5 1), .frag (exFrag '3' 1 5 1)], name := ['A'], rank := 1 }, added := true },
      { o := { bait := exFrag 'p' 21 30 1, start := 1, stop := 10, rows := [.frag (exFrag '8' 1 5 1)], name := ['A'], rank := 1 },
        added := false },
      { o := { bait := exFrag 'p' 31 40 1, start := 1, stop := 10, rows := [], name := ['A'], rank := 1 }, added := true }],
    extra := [
      ({ name := ['A'], rows := [.frag (exFrag '4' 1 7 1)], rank := 3 }, some (exFrag '2' 1 5 (-1), [exU7])),
      ({ name := ['A'], rows := [.frag (exFrag '5' 1 3 1)], rank := 3 }, some (exFrag '9' 1 5 1, [exU7])),
      ({ name := ['B'], rows := [.frag (exFrag '6' 1 3 1)], rank := 3 }, none)] }

def exFused : List Scaffold :=
  [{ name := ['A'], rank := 1,
     rows := [.frag (exFrag '1' 1 10 1), .gap exJoin, .frag (exFrag '3' 1 5 (-1)), .frag (exFrag '2' 1 5 (-1)), .gap exU7,
              .frag (exFrag '4' 1 7 1), .gap exJoin, .frag (exFrag '5' 1 3 1)] },
   { name := ['B'], rank := 3, rows := [.frag (exFrag '6' 1 3 1)] }]

/-- the generated function runs (`self.scaffolds` = results 0, 1, 3, then the three left-overs) … -/
example :
    Gen.Imp.BuildAssembly_scaffolds_fused_by_name exB.store (exB.extra.map loSrc) exB.joinGap
        [.res 0, .res 1, .res 3, .lo 0, .lo 1, .lo 2]
      = .ok (exB.store, exFused, [0, 1]) := by decide +kernel

/-- … on the list of the theorem, and the model agrees -/
example :
    ((List.range exB.store.length).filter (fun sid => (exB.store.getD sid default).added)).map PyRt.BuiltRef.res
      ++ (List.range exB.extra.length).map PyRt.BuiltRef.lo = [.res 0, .res 1, .res 3, .lo 0, .lo 1, .lo 2] := by decide
example : fuseByName exB = exFused := by decide +kernel

/-! ### the re-binding of `gap`, observed -/

/-- an OverlapResult AFTER a left-over whose `gaps_before_leftover` is non-empty (an order `BuildAssembly.scaffolds` never has) -/
def exStore2 : List Res :=
  [{ o := { bait := exFrag 'p' 1 10 1, start := 1, stop := 10, rows := [.frag (exFrag '1' 1 10 1)], name := ['A'] }, added := true },
   { o := { bait := exFrag 'p' 11 20 1, start := 1, stop := 10, rows := [.frag (exFrag '2' 1 5 1)], name := ['A'] }, added := true }]
def exExtra2 : List (Scaffold × Option (Fragment × List Gap)) :=
  [({ name := ['A'], rows := [.frag (exFrag '4' 1 7 1)] }, some (exFrag '1' 1 10 1, [exU7]))]

/-- the source appends result 1 with the row the inner `for gap in …` loop left in `gap` (the restored input gap of length 7) … -/
theorem rebinding_source :
    Gen.Imp.BuildAssembly_scaffolds_fused_by_name exStore2 (exExtra2.map loSrc) (some exJoin) [.res 0, .lo 0, .res 1]
      = .ok (exStore2,
          [{ name := ['A'],
             rows := [.frag (exFrag '1' 1 10 1), .gap exU7, .frag (exFrag '4' 1 7 1), .gap exU7, .frag (exFrag '2' 1 5 1)] }],
          [0]) := by decide +kernel

/-- … where the model's step (in that order) puts the join gap of length 200: in an order with a `.res` after such a `.lo` the source is
    NOT the model.  (Never observed: phase 1 appends all left-overs after all OverlapResults — `scaffolds_fused_by_name_ordered`.) -/
theorem rebinding_model :
    (fuseRefs exStore2 exExtra2 (some exJoin) [.res 0, .lo 0, .res 1] []).map (·.2)
      = [{ name := ['A'],
           rows := [.frag (exFrag '1' 1 10 1), .gap exU7, .frag (exFrag '4' 1 7 1), .gap exJoin, .frag (exFrag '2' 1 5 1)] }] := by
  decide +kernel

theorem rebinding_differs :
    Gen.Imp.BuildAssembly_scaffolds_fused_by_name exStore2 (exExtra2.map loSrc) (some exJoin) [.res 0, .lo 0, .res 1]
      ≠ .ok (exStore2, (fuseRefs exStore2 exExtra2 (some exJoin) [.res 0, .lo 0, .res 1] []).map (·.2),
          List.range (fuseRefs exStore2 exExtra2 (some exJoin) [.res 0, .lo 0, .res 1] []).length) := by
  rw [rebinding_source, rebinding_model]
  decide

end AgpTpf.C07
