/-
  C05 — T1c tie: the model's `formatTpf` IS the source's `format_tpf` (assembly/format.py) as translated by
  `harness/translate_imp.py` into `Gen.Imp.format_tpf_imp`.

  The model produces the list of written lines, the translated source the text written to `file`
  (every `file.write(...)` appended); the tie is "text = concatenation of the lines", with the same exception
  (`IndexError` from `STRAND_STR[row.strand]`) otherwise.  The source's `str.maketrans` table
  (`uppercase_and_underscore_to_dash()`, a parameter of the translated function) is instantiated with the model's
  own per-character table `modelTr` (the extracted alphabets `Gen.upperFrom` / `Gen.upperTo`).
  Loop lemmas: Proofs/ImpTpf.lean.
-/
import AgpTpf.Proofs.ImpTpf
namespace AgpTpf.C05
open AgpTpf

/-- the character map of the source's translation table, as the model has it: `translate Gen.upperFrom Gen.upperTo`
    (what `tpfGapTypeToText` applies when the dictionary has no entry) is `List.map` of this function -/
def modelTr : Char → Char :=
  fun c => match dGet? (Gen.upperFrom.zip Gen.upperTo) c with | some d => d | none => c

/-- `modelTr` is the model's table: `tpfGapTypeToText g` is `gap_type_dict.get(g, g.translate(tr))`, by unfolding -/
theorem modelTr_is_model (g : Str) :
    tpfGapTypeToText g = (dGet? Gen.tpfGapFormatDict g).getD (g.map modelTr) :=
  tpfGapTypeToText_eq_getD g

/-- the table, run: lower-case letters to upper case, `_` to `-`, everything else unchanged -/
example : "short_arm Z-9é".toList.map modelTr = "SHORT-ARM Z-9é".toList := by decide

/-- the text the source's `format_tpf` writes is the concatenation of the model's lines (same exception otherwise) -/
theorem format_tpf_is_source (a : Assembly) :
    Gen.Imp.format_tpf_imp a.header a.scaffolds modelTr = (formatTpf a).map List.flatten := by
  unfold Gen.Imp.format_tpf_imp formatTpf
  dsimp only
  -- `for line in asm.header`
  rw [imp_forIn_line (fun line => Gen.tpfHeaderPrefix ++ line ++ ['\n'])]
  rotate_left
  · intro line file; simp [Gen.tpfHeaderPrefix]
  simp only [bind, Except.bind]
  -- `for scffld in asm.scaffolds`
  rw [imp_forIn_scaffolds (fun s : Scaffold => s.rows.mapM (formatTpfRow s.name))]
  rotate_left
  · intro s file
    -- `for row in scffld.rows`
    rw [imp_forIn_rows (formatTpfRow s.name)]
    · cases s.rows.mapM (formatTpfRow s.name) <;> rfl
    · intro row file
      cases row with
      | gap g =>
        simp [formatTpfRow, modelTr_is_model, PyRt.asGap, Row.isGap, Row.length, Except.map,
          Gen.tpfGapWord, Gen.tpfGapFormatDict]
      | frag f =>
        simp [formatTpfRow, strandStr, PyRt.asFrag, Row.isGap, Except.map, Gen.tpfFragCol1, Gen.tpfStrandStr]
        generalize pyGet _ f.strand = ss
        cases ss <;> simp [Functor.map, Except.map]
  cases List.mapM (fun s : Scaffold => s.rows.mapM (formatTpfRow s.name)) a.scaffolds <;>
    simp [Except.map, pure, Except.pure]

set_option maxRecDepth 8000 in
/-- the generated function, run: header line, a dictionary gap type, a translated gap type (`short_arm ↦ SHORT-ARM`),
    `-1 ↦ "MINUS"`, the scaffold name in column 3, second scaffold -/
example : Gen.Imp.format_tpf_imp ["hdr".toList]
    [{ name := "scaffold_1".toList, rows :=
        [.frag { name := "ctg:1".toList, start := 1, stop := 1000000000000, strand := 1 },
         .gap { length := 200, gapType := "scaffold".toList },
         .gap { length := 7, gapType := "short_arm".toList },
         .frag { name := "ctg2".toList, start := 5, stop := 9, strand := -1 }] },
     { name := "scaffold_2".toList, rows :=
        [.frag { name := "ctg3".toList, start := 11, stop := 20, strand := 0 }] }] modelTr = .ok
    ("## hdr\n".toList ++
     "?\tctg:1:1-1000000000000\tscaffold_1\tPLUS\n".toList ++
     "GAP\tTYPE-2\t200\n".toList ++
     "GAP\tSHORT-ARM\t7\n".toList ++
     "?\tctg2:5-9\tscaffold_1\tMINUS\n".toList ++
     "?\tctg3:11-20\tscaffold_2\tUNKNOWN\n".toList) := by rfl

/-- …and the exception: `STRAND_STR[3]` is an IndexError in the source, after a scaffold that was written fine
    (indices -3 … 2 are all accepted by the tuple lookup, in the source and in the model alike) -/
example : Gen.Imp.format_tpf_imp [] [{ name := "a".toList, rows := [.gap { length := 3, gapType := "contig".toList }] },
      { name := "b".toList, rows := [.frag { name := "c".toList, start := 1, stop := 2, strand := 3 }] }] modelTr =
    .error .index := by rfl

end AgpTpf.C05
