/-
  C02 (end-to-end placement for conflict-free maps) — contig-aligned Pretext maps are rearranged exactly.

  Generalises `Properties/C08.lean` (`unedited_map_reproduces_input`: every piece = one whole input scaffold, in place)
  to: every piece = ANY contiguous run of rows of an input scaffold that no other piece claims; pieces moved, reversed and
  regrouped into Pretext scaffolds freely; any subset of contigs claimed by no piece at all.
  Python: `BuildAssembly.remap_to_input_assembly`, `find_assembly_overlaps`, `add_missing_scaffolds_from_input`,
  `scaffolds_fused_by_name`, `assemblies_with_scaffolds_fused` (build_assembly.py).  Helpers: `Proofs/C02A*.lean`.

  HYPOTHESES — one predicate `Aligned input ptx err` (`Proofs/C02ALeft.lean`; Bool checker `alignedB`, `aligned_of_check`):
    * `names`     input scaffold names pairwise different (else `IndexedAssembly.add_scaffold` raises);
    * `lens`      no input row has negative length (monotone index);
    * `scaffolds` for every Pretext scaffold `S` (`ScaffoldAligned`): its first row is a fragment row (else
                  `make_scaffold_name` raises AttributeError), the name of that row does not look like `<hap>_…_<digits>`,
                  and every fragment row `p` of `S` (`PieceAligned`) has a lookup result
                  `lookupPiece input p = some o` (= the scaffold named `p.name` exists and `find_overlaps` on it returns
                  `o`) with `o.startOverhang ≤ err` and `o.endOverhang ≤ err` (nothing for `trim_large_overhangs` to
                  discard — cuts at or within the error length of contig boundaries), and carries no tags;
    * `disjoint`  `claimedKeys input ptx` — the `(name, start, end)` keys of the contigs of all lookup results, in Pretext
                  order — has no duplicate: no contig is claimed twice (so the resolver and `cut_fragments` have nothing
                  to do), and no lookup result contains a key twice;
    * `unclaimed` contigs claimed by no piece carry no tags and have names not shaped `<hap>_…_<digits>`.
    (Distinct oids and the other clauses of `C01.WFInput` are NOT needed: nothing is cut.)  Strands of the PIECES are
    unrestricted (`-1` reverses, anything else does not).  The join gap must be configured (`some jg`, as the CLI always
    does): without it `add_missing` can raise AttributeError.
  For the OUTPUT theorem additionally `NoClash input ptx jg`: the names of the fused scaffolds are pairwise different —
  an unpainted Pretext scaffold is named after its first row, i.e. after the INPUT scaffold of its first piece, and
  `scaffolds_fused_by_name` fuses everything with the same name.  See `same_first_scaffold_is_fused` (evaluated): without
  it two Pretext scaffolds — e.g. the two halves of a BREAK made in an unpainted scaffold — come out as ONE scaffold.

  PROVED (full strength for the untagged / unpainted class; no `_partial` theorem):
    `remap_to_input_aligned`   the build: `store = expectedStore` (one result per piece, Pretext order, labelled with the
                               Pretext scaffold's output name, rank 3), `extra = expectedExtra` (the left-over scaffolds:
                               `leftover` = `missingRows`, characterised by `leftover_exact` / `C01.missing_rows_exact`),
                               `multi = []`, `cuts = 0`
    `aligned_map_rearranges`   `remap = .ok (primaryOnly (expectedScaffolds input ptx jg), stats)` with `stats.cuts = 0`:
                               one primary curated assembly holding, in `smart_sort_scaffolds` order, for every Pretext
                               scaffold `S` the scaffold `pretextOut input jg S` with rows `expectedRows input jg S`, and
                               the left-over scaffolds
    `expected_rows_spelled_out` (b) `expectedRows` = first piece ++ (join gap :: next piece) ++ …, pieces in Pretext order
    `piece_is_contiguous_run`  (a) every piece's rows — `toScaffoldRows o`: the input rows `o.rows` (a contiguous run of the
                               input scaffold's rows, internal gaps kept), reversed with strands negated iff the piece is
                               on the minus strand — are one contiguous run of one scaffold of the output
    (c) no error: both theorems assert `= .ok …`.
  PAINTED VARIANT, also proved at full strength: `AlignedP` (as `Aligned`, but every piece carries exactly the tag
  `Painted` and every Pretext scaffold has a non-empty name), `NoClashP` (Pretext scaffold names pairwise different and
  different from the names of input scaffolds with left-overs), at least one Pretext scaffold:
    `remap_to_input_aligned_painted`  the build (results named after the PRETEXT scaffold, rank 1)
    `aligned_painted_map_rearranges`  `remap = .ok ([⟨none, true, smartSorted (expectedScaffoldsP …)⟩], stats)`, `cuts = 0`:
                               the scaffold of Pretext scaffold `S` has the SAME rows `expectedRows input jg S` as in the
                               unpainted case and is named `prefix ++ rank`, rank = 1 + position in the stable order by
                               non-increasing total contig length (`expected_scaffolds_painted_def`, `size_order_spec`);
                               left-over scaffolds keep their names.  So two halves of a break stay two scaffolds.
  NOT COVERED (restriction of the class, not a `_partial` proof): other tags, and maps mixing painted and unpainted
  scaffolds (needs the split-loop lemma for an arbitrary subset of rank-1 scaffolds instead of a prefix).
-/
import AgpTpf.Proofs.C02APaintOut
namespace AgpTpf.C02
open AgpTpf

/-! ## the build -/

/-- **`remap_to_input_assembly` on an aligned map.** -/
theorem remap_to_input_aligned (input ptx : List Scaffold) (prefix_ : Str) (jg : Gap) (err : Int)
    (ha : Aligned input ptx err) :
    ∃ b, remapToInput input ptx prefix_ (some jg) err = .ok b ∧
      b.store = expectedStore input ptx ∧
      b.extra = expectedExtra (claimedKeys input ptx) jg input ∧
      b.multi = [] ∧ b.cuts = 0 ∧ b.joinGap = some jg ∧ b.namer.autosomePrefix = prefix_ :=
  remapToInput_aligned input ptx prefix_ jg err ha

/-- what is stored for piece `p` of Pretext scaffold `S`: its lookup result, unchanged (bait, span, rows), named like the
    output scaffold of `S`, rank 3, no tag, no haplotype -/
theorem piece_res_fields (input : List Scaffold) (S : Scaffold) (p : Fragment) :
    (pieceRes input S p).added = true ∧ (pieceRes input S p).o.rows = (pieceO input p).rows ∧
    (pieceRes input S p).o.bait = (pieceO input p).bait ∧ (pieceRes input S p).o.start = (pieceO input p).start ∧
    (pieceRes input S p).o.stop = (pieceO input p).stop ∧ (pieceRes input S p).o.name = outName S ∧
    (pieceRes input S p).o.rank = 3 ∧ (pieceRes input S p).o.tag = none ∧ (pieceRes input S p).o.haplotype = none ∧
    (pieceRes input S p).o.originalName = some S.name :=
  ⟨rfl, rfl, rfl, rfl, rfl, rfl, rfl, rfl, rfl, rfl⟩

/-- the left-over rows of an input scaffold (`leftover`, = `missingRows`): exactly the unclaimed contigs, in input order,
    each once; never a gap row first or last.  (Separators: `C01.missing_rows_exact`.) -/
theorem leftover_exact (keys : List Key) (jg : Gap) (rows : List Row) :
    fragmentsOf (leftover keys jg rows).1 = (fragmentsOf rows).filter (fun f => !keys.contains f.keyTuple) ∧
    (∀ g, (leftover keys jg rows).1.head? ≠ some (.gap g)) ∧ (∀ g, (leftover keys jg rows).1.getLast? ≠ some (.gap g)) :=
  leftover_spec keys jg rows

/-! ## the output -/

/-- **C02, aligned maps.**  `remap` does not fail; it returns one primary, curated assembly (none at all iff there is
    nothing to output) whose scaffolds are, in `smart_sort_scaffolds` order, `expectedScaffolds input ptx jg`: for every
    Pretext scaffold `S` the scaffold `pretextOut input jg S` — rows `expectedRows input jg S`, named after the first row
    of `S`, rank 3 — followed by the left-over scaffolds; no cuts.
    (`hstr`: input strands ±1, so that junction sets exist — `make_stats` raises otherwise.) -/
theorem aligned_map_rearranges (input ptx : List Scaffold) (prefix_ : Str) (jg : Gap) (err : Int)
    (ha : Aligned input ptx err) (hnc : NoClash input ptx jg)
    (hstr : ∀ sc ∈ input, ∀ f ∈ sc.fragments, f.strand = 1 ∨ f.strand = -1) :
    ∃ stats, remap input ptx prefix_ (some jg) err = .ok (primaryOnly (expectedScaffolds input ptx jg), stats) ∧
      stats.cuts = 0 := by
  obtain ⟨b, hb, hstore, hextra, -, hcuts, hjg, -⟩ := remapToInput_aligned input ptx prefix_ jg err ha
  have hfs := fuseByName_aligned input ptx jg err ha hnc b hjg hstore hextra
  obtain ⟨st, hst, hc⟩ := assembliesFused_plain input b _ hfs (expectedScaffolds_plain input ptx jg)
    (fun sc hsc => C08.junctionSet_ok_of_strands sc (hstr sc hsc))
    (expectedScaffolds_junctions input ptx jg err ha hstr)
  refine ⟨st, ?_, by rw [hc, hcuts]⟩
  unfold remap
  simp only [hb, bind, Except.bind, hst]

/-- the definitions the theorem is phrased with, unfolded -/
theorem expected_scaffolds_def (input ptx : List Scaffold) (jg : Gap) :
    expectedScaffolds input ptx jg =
      ptx.map (fun S => ({ name := outName S, rows := expectedRows input jg S, rank := 3,
                           originalName := some S.name, originalTags := some [] } : Scaffold)) ++
      (input.filterMap (leftoverEntry (claimedKeys input ptx) jg)).map (·.1) := rfl

theorem primary_only_def (fs : List Scaffold) :
    primaryOnly fs = if fs.isEmpty then [] else [{ key := none, curated := true, scaffolds := C20.smartSorted fs }] := rfl

/-- every scaffold of the output is one of the expected ones and vice versa (sorting permutes) -/
theorem output_scaffolds_perm (fs : List Scaffold) : (C20.smartSorted fs).Perm fs := C20.stableSort_perm _ _

/-- **(b) pieces follow each other in Pretext order**, the join gap between consecutive pieces, nothing else -/
theorem expected_rows_spelled_out (input ptx : List Scaffold) (jg : Gap) (err : Int) (ha : Aligned input ptx err)
    (S : Scaffold) (hS : S ∈ ptx) :
    ∃ p0 ps, S.fragments = p0 :: ps ∧
      expectedRows input jg S =
        (pieceO input p0).toScaffoldRows ++ ps.flatMap (fun p => Row.gap jg :: (pieceO input p).toScaffoldRows) := by
  obtain ⟨f0, r0, hrows⟩ := (ha.scaffolds S hS).head
  have hf : S.fragments = f0 :: fragmentsOf r0 := by simp [Scaffold.fragments, hrows, fragmentsOf]
  refine ⟨f0, fragmentsOf r0, hf, expectedRows_eq input jg S f0 _ hf ?_⟩
  obtain ⟨sc, hfind, hfo⟩ := lookupPiece_spec ((ha.scaffolds S hS).pieces f0 (by rw [hf]; simp)).found
  exact (findOverlaps_shape sc.rows f0 _ (ha.lens sc (List.mem_of_find?_eq_some hfind)) hfo).2.2.1

/-- **(a) every piece is one contiguous, collinear run in a single output scaffold**: its lookup result `o` is for the
    bait `p`, `o.rows` is a contiguous run of the rows of the input scaffold named `p.name`, and
    `toScaffoldRows o` — `o.rows` itself, or reversed with every strand negated iff `p.strand = -1` (input orientation ×
    piece orientation) — is a contiguous run of the rows of `pretextOut input jg S`. -/
theorem piece_is_contiguous_run (input ptx : List Scaffold) (jg : Gap) (err : Int) (ha : Aligned input ptx err)
    (S : Scaffold) (hS : S ∈ ptx) (p : Fragment) (hp : p ∈ S.fragments) :
    (∃ sc ∈ input, sc.name = p.name ∧ (pieceO input p).rows <:+: sc.rows) ∧ (pieceO input p).bait = p ∧
    (pieceO input p).toScaffoldRows =
      (if p.strand = -1 then (pieceO input p).rows.reverse.map Row.reverse else (pieceO input p).rows) ∧
    (pieceO input p).toScaffoldRows <:+: (pretextOut input jg S).rows := by
  obtain ⟨sc, hfind, hfo⟩ := lookupPiece_spec ((ha.scaffolds S hS).pieces p hp).found
  have hsc := List.mem_of_find?_eq_some hfind
  obtain ⟨hb, -, -, hinf⟩ := findOverlaps_shape sc.rows p _ (ha.lens sc hsc) hfo
  refine ⟨⟨sc, hsc, by simpa using List.find?_some hfind, hinf⟩, hb, ?_, piece_infix input jg S p hp⟩
  unfold OverlapResult.toScaffoldRows
  rw [hb]

/-! ## the painted variant -/

/-- the build of a painted aligned map: as `remap_to_input_aligned`, results labelled `pieceResP` (named after the
    Pretext scaffold, rank 1, `originalTags = [Painted]`) -/
theorem remap_to_input_aligned_painted (input ptx : List Scaffold) (prefix_ : Str) (jg : Gap) (err : Int)
    (ha : AlignedP input ptx err) :
    ∃ b, remapToInput input ptx prefix_ (some jg) err = .ok b ∧
      b.store = expectedStoreP input ptx ∧
      b.extra = expectedExtra (claimedKeys input ptx) jg input ∧
      b.multi = [] ∧ b.cuts = 0 ∧ b.joinGap = some jg ∧ b.namer.autosomePrefix = prefix_ :=
  remapToInput_alignedP input ptx prefix_ jg err ha

/-- **C02, aligned painted maps.**  One primary curated assembly; its scaffolds are, in `smart_sort_scaffolds` order,
    `expectedScaffoldsP prefix input ptx jg`: for every Pretext scaffold the rows `expectedRows input jg S` under the name
    `prefix ++ rank-by-size`, then the left-over scaffolds under their input names; no cuts, no error. -/
theorem aligned_painted_map_rearranges (input ptx : List Scaffold) (prefix_ : Str) (jg : Gap) (err : Int)
    (ha : AlignedP input ptx err) (hnc : NoClashP input ptx jg) (hne : ptx ≠ [])
    (hstr : ∀ sc ∈ input, ∀ f ∈ sc.fragments, f.strand = 1 ∨ f.strand = -1) :
    ∃ stats, remap input ptx prefix_ (some jg) err =
        .ok ([{ key := none, curated := true,
                scaffolds := C20.smartSorted (expectedScaffoldsP prefix_ input ptx jg) }], stats) ∧
      stats.cuts = 0 :=
  remap_alignedP input ptx prefix_ jg err ha hnc hne hstr

/-- `expectedScaffoldsP`, unfolded: the fused list `expectedFusedP` (Pretext scaffolds with rows `expectedRows`, rank 1;
    then the left-overs) with scaffold `i < ptx.length` renamed `prefix ++ (1 + position of i in the size order)` -/
theorem expected_scaffolds_painted_def (prefix_ : Str) (input ptx : List Scaffold) (jg : Gap) :
    expectedScaffoldsP prefix_ input ptx jg =
      (ptx.map (fun S => ({ name := S.name, rows := expectedRows input jg S, rank := 1, originalName := some S.name,
                            originalTags := some [sPainted] } : Scaffold)) ++
        (input.filterMap (leftoverEntry (claimedKeys input ptx) jg)).map (·.1)).mapIdx
        (fun i s => if i < ptx.length then
            { s with name := prefix_ ++ natToStr ((sizeOrderG (expectedFusedP input ptx jg) ptx.length).idxOf i + 1) }
          else s) := rfl

/-- the size order is a permutation of the Pretext scaffold indices, sorted by non-increasing total contig length
    (stable: ties keep Pretext order); renaming does not touch rows -/
theorem size_order_spec (prefix_ : Str) (input ptx : List Scaffold) (jg : Gap) :
    (sizeOrderG (expectedFusedP input ptx jg) ptx.length).Perm (List.range ptx.length) ∧
    (sizeOrderG (expectedFusedP input ptx jg) ptx.length).Pairwise
      (fun i j => C08.fragLen (expectedFusedP input ptx jg) i ≥ C08.fragLen (expectedFusedP input ptx jg) j) ∧
    (expectedScaffoldsP prefix_ input ptx jg).map (·.rows) = (expectedFusedP input ptx jg).map (·.rows) :=
  ⟨sizeOrderG_perm _ _, sizeOrderG_sorted _ _, namedBySize_rows _ _ _⟩

/-! ## non-vacuity: two pieces swapped between scaffolds, one reversed, a sub-texel scaffold left over -/

private def g10 : Gap := { length := 10, gapType := "scaffold".toList }
private def g5 : Gap := { length := 5, gapType := "scaffold".toList }
private def jg : Gap := { length := 200, gapType := "scaffold".toList }
private def a1 : Fragment := { oid := 1, name := "ctgA1".toList, start := 1, stop := 100, strand := 1 }
private def a2 : Fragment := { oid := 2, name := "ctgA2".toList, start := 1, stop := 50, strand := -1 }
private def a3 : Fragment := { oid := 3, name := "ctgA3".toList, start := 1, stop := 40, strand := 1 }
private def b1 : Fragment := { oid := 4, name := "ctgB1".toList, start := 1, stop := 80, strand := 1 }
private def b2 : Fragment := { oid := 5, name := "ctgB2".toList, start := 1, stop := 60, strand := 1 }
private def c1 : Fragment := { oid := 6, name := "ctgC1".toList, start := 1, stop := 3, strand := 1 }
/-- 210 bp: a1 1-100, gap, a2 111-160 (reverse contig), gap, a3 171-210 -/
private def sA : Scaffold := { name := "scaffold_1".toList, rows := [.frag a1, .gap g10, .frag a2, .gap g10, .frag a3] }
/-- 145 bp: b1 1-80, gap, b2 86-145 -/
private def sB : Scaffold := { name := "scaffold_2".toList, rows := [.frag b1, .gap g5, .frag b2] }
/-- 3 bp: below one texel, not in the map -/
private def sC : Scaffold := { name := "scaffold_3".toList, rows := [.frag c1] }
private def inp : List Scaffold := [sA, sB, sC]
private def pc (n : Str) (s e st : Int) : Row := .frag { name := n, start := s, stop := e, strand := st }
/-- texel 8 bp (`err = 9`); cuts at 104 (inside the first gap of A) and 82 (inside the gap of B), both within `err` of a
    contig boundary.  The tail of A (a2-a3) is REVERSED and put in front of the head of B; the tail of B is put in front
    of the head of A. -/
private def ptx : List Scaffold :=
  [{ name := "Scaffold_1".toList, rows := [pc sA.name 105 210 (-1), .gap jg, pc sB.name 1 82 1] },
   { name := "Scaffold_2".toList, rows := [pc sB.name 83 145 1, .gap jg, pc sA.name 1 104 1] }]

example : Aligned inp ptx 9 := aligned_of_check _ _ _ (by decide +kernel)
example : NoClash inp ptx jg := by unfold NoClash; decide +kernel
example : ∀ sc ∈ inp, ∀ f ∈ sc.fragments, f.strand = 1 ∨ f.strand = -1 := by decide

/-- the specification, evaluated: reversed tail of A (a3, gap, a2 with strands flipped) + join gap + b1 under A's name;
    b2 + join gap + a1 under B's name; the absent scaffold as a left-over -/
example : (expectedScaffolds inp ptx jg).map (fun s => (s.name, s.rows)) =
    [(sA.name, [.frag a3.reverse, .gap g10, .frag a2.reverse, .gap jg, .frag b1]),
     (sB.name, [.frag b2, .gap jg, .frag a1]),
     (sC.name, [.frag c1])] := by decide +kernel

/-- … and `remap` evaluated by the kernel, independently of the theorems, returns exactly the specified output -/
example : (remap inp ptx "SUPER_".toList (some jg) 9).toOption.map (·.1) =
    some (primaryOnly (expectedScaffolds inp ptx jg)) := by decide +kernel

example : (remap inp ptx "SUPER_".toList (some jg) 9).toOption.map (fun r => r.2.cuts) = some 0 := by decide +kernel

/-! ## why `NoClash` is there (evaluated) -/

/-- FINDING / caveat.  Two unpainted Pretext scaffolds whose first pieces lie on the same input scaffold get the same
    output name and are FUSED by `scaffolds_fused_by_name`: here the curator BROKE `scaffold_1` between a1 and a2 into two
    Pretext scaffolds; the output is a single scaffold again (the 10 bp input gap replaced by the 200 bp join gap), and
    the statistics report 0 breaks.  Painting the scaffolds avoids this (they are then named after the Pretext scaffold). -/
theorem same_first_scaffold_is_fused :
    (remap [sA] [{ name := "Scaffold_1".toList, rows := [pc sA.name 1 104 1] },
                 { name := "Scaffold_2".toList, rows := [pc sA.name 105 210 1] }] "SUPER_".toList (some jg) 9).toOption.map
      (fun r => (r.1.map (fun a => a.scaffolds.map (fun s => (s.name, s.rows))), r.2.breaks)) =
    some ([[(sA.name, [.frag a1, .gap jg, .frag a2, .gap g10, .frag a3])]], 0) := by decide +kernel

/-- that map is `Aligned`; only `NoClash` fails -/
example : Aligned [sA] [{ name := "Scaffold_1".toList, rows := [pc sA.name 1 104 1] },
                        { name := "Scaffold_2".toList, rows := [pc sA.name 105 210 1] }] 9 ∧
    ¬ NoClash [sA] [{ name := "Scaffold_1".toList, rows := [pc sA.name 1 104 1] },
                    { name := "Scaffold_2".toList, rows := [pc sA.name 105 210 1] }] jg :=
  ⟨aligned_of_check _ _ _ (by decide +kernel), by unfold NoClash; decide +kernel⟩

/-! ## the painted variant, evaluated on the same edits -/

private def pcP (n : Str) (s e st : Int) : Row := .frag { name := n, start := s, stop := e, strand := st, tags := [sPainted] }
private def ptxP : List Scaffold :=
  [{ name := "Scaffold_1".toList, rows := [pcP sA.name 105 210 (-1), .gap jg, pcP sB.name 1 82 1] },
   { name := "Scaffold_2".toList, rows := [pcP sB.name 83 145 1, .gap jg, pcP sA.name 1 104 1] }]

example : AlignedP inp ptxP 9 ∧ ptxP ≠ [] := ⟨alignedP_of_check _ _ _ (by decide +kernel), by decide⟩
example : NoClashP inp ptxP jg := by unfold NoClashP; decide +kernel

/-- `Scaffold_1` holds 90 + 80 = 170 bp of contigs, `Scaffold_2` 60 + 100 = 160 bp: `SUPER_1`, `SUPER_2` -/
example : (C20.smartSorted (expectedScaffoldsP "SUPER_".toList inp ptxP jg)).map (fun s => (s.name, s.rows)) =
    [("SUPER_1".toList, [.frag a3.reverse, .gap g10, .frag a2.reverse, .gap jg, .frag b1]),
     ("SUPER_2".toList, [.frag b2, .gap jg, .frag a1]),
     (sC.name, [.frag c1])] := by decide +kernel

example : (remap inp ptxP "SUPER_".toList (some jg) 9).toOption.map (·.1) =
    some [{ key := none, curated := true,
            scaffolds := C20.smartSorted (expectedScaffoldsP "SUPER_".toList inp ptxP jg) }] := by decide +kernel

/-- painted, the two halves of the break of `same_first_scaffold_is_fused` stay two scaffolds -/
example : (remap [sA] [{ name := "Scaffold_1".toList, rows := [pcP sA.name 1 104 1] },
                       { name := "Scaffold_2".toList, rows := [pcP sA.name 105 210 1] }] "SUPER_".toList (some jg) 9).toOption.map
      (fun r => r.1.map (fun a => a.scaffolds.map (fun s => (s.name, s.rows)))) =
    some [[("SUPER_1".toList, [.frag a1]), ("SUPER_2".toList, [.frag a2, .gap g10, .frag a3])]] := by decide +kernel

end AgpTpf.C02
