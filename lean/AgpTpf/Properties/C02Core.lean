/-
  C02 (first sentence) — the 3·err margin, for ALL maps with non-overlapping pieces: THE CORE OF EVERY PIECE SURVIVES.

  `err = 1 + ⌊bp per texel⌋`, margin `M = 3·err`.  For a Pretext fragment `p` (bait) the CORE is the interval
  `[p.start + M, p.stop − M]` in the coordinates of the input scaffold `p` names.

  PROVED here, all at full strength (no `_partial` theorem in this file):

    K1  `ops_keep_core`, `ops_keep_core_rows`      one `OverlapResult`: along ANY sequence of operations each applied under
        its guard (`GStep`: `trim_large_overhangs(err)`; `discard_start` / `discard_end` under guard (a) — sub-texel rule —
        or guard (b) — `improves`; `trim_fragment` of a terminal row) starting from a lookup result, the invariant `KInv`
        holds: C18's `Inv` (the rows are a contiguous run of the source scaffold, gaps included, only terminal fragments
        shortened) + every contig base of the lookup span lying in the core is still inside `[start, stop]` + each end of
        the result is a row boundary of the source or lies exactly at the bait coordinate.  Row form: a contig row with a
        base in the core is still a row of the result, at its scaffold position; inner rows are the source rows
        themselves; a shortened terminal row was cut exactly at the bait coordinate (so the clipped part lies outside the
        bait, hence outside the core).
    K2  `remap_keeps_core`      build level: `remap_to_input_assembly` returning ⇒ the `sid`-th stored result belongs to the
        `sid`-th piece (`C09.pieces`) and satisfies `KInv` w.r.t. that piece's bait and input scaffold; EVERY contig base
        of that scaffold lying in the core is inside the result's span (`lookup_covers_bait`: the lookup covers the bait),
        and the row form.  All rounds of the resolver are covered (no "at most one row per end" restriction).
    K3  `remap_core_in_one_scaffold`   output level: a piece whose core holds a contig base is written (`toScaffoldRows`:
        reversed and strand-negated iff its Pretext orientation is `−`) as ONE contiguous block of rows of ONE scaffold of
        the output assembly `C09.routeKey tag haplotype`; any output fragment sharing a contig base with it lies in that
        same scaffold of that same assembly.
    K2b `deep_row_survives`     the complement for SHORT pieces (whose core may be empty): a contig that shares `≥ err`
        (and `≥ 1`) bases with a piece and reaches deeper than `M` from BOTH ends of the piece is never taken away from
        it — neither guard can fire: (a) / `trim_large_overhangs` need an overlap `< err`, (b) would have to move the
        result's end past the contig, more than `M` beyond the bait's end (`SafeKept`).
    K4  `deep_cut_exact_any_map`, `deep_cut_exact_any_map_output`   a piece boundary `c | c+1` falling deeper than `M`
        inside a contig, between two non-empty pieces of at least `err` bases each, splits the contig exactly at the
        designated coordinate: the first piece's result ends with a part of the
        contig, the second's begins with one, the results end/begin at `c` / `c+1`, and the two parts meet exactly there
        (`deep_cut_position`'s arithmetic: forward contig `…-(stop − (ce − c))`, `(that+1)-…`; reverse contig mirrored).
        This is the FULL statement asked for ("two fragments meeting exactly at the designated coordinate"), not the
        weaker one — obtained without analysing `cut_fragments`: both parts survive (K2b), two stored rows never share a
        base (C01), so both were shortened, and a shortened end lies at the bait coordinate (K1, `EdgeOK`).

  HYPOTHESES of K2–K4 (all decidable; the examples at the end discharge them by `decide`):
    `C01.WFInput input`   distinct scaffold names / Fragment objects / keys, disjoint contigs, `start ≤ end`  (as C01);
    `InputNonNeg input`   no gap row of negative length (C12's hypothesis: the cumulative index is monotone);
    `PtxDisjoint ptx`     the Pretext fragments (baits) are pairwise disjoint intervals per input scaffold name;
    `0 ≤ err`.

  FINDINGS (each with a kernel-checked witness below):
    F-K1  K1 as literally worded in the task ("discardStart … applied under guard (a)") is FALSE: guard (a) — the terminal
          row shares `< err` bases with the bait — does not keep a row out of the core when the row lies wholly INSIDE the
          bait (a contig shorter than `err`).  `guard_a_alone_is_not_enough`.  `GStep.startA/endA` therefore carry the
          side condition "the row is not wholly inside the bait"; in the pipeline it holds because the row is shared with
          a second result whose bait is disjoint (`sticks_out_start/_end`).
    F-K2  "for EVERY Pretext file for which remap succeeds" is FALSE: with OVERLAPPING baits a contig deep inside the
          core of one piece is taken away from it by the sub-texel rule and handed to the other piece; `remap` succeeds.
          `overlapping_baits_lose_core`.  (Outside C02's quantifier — the pieces of a Pretext map tile their scaffolds —
          so not a defect of the code with respect to C02; it is the reason for the hypothesis `PtxDisjoint`.)
    F-K4  K4 carries a side condition the task's wording omits: each of the two pieces has at least `err` bases.  A piece
          shorter than `err` lying inside the contig is emptied by `trim_large_overhangs` right after the lookup; the
          remaining holders then do not tile the contig, `qc_sub_fragments` raises and `remap` does not complete — so the
          statement without the side condition is presumably still true (vacuously in that case), but proving that
          needs the converse analysis of the cut QC, which is not done here.
  No statement about the unchanged code was found false.

  Helper files (all new): `Proofs/C02KPos` (positions, geometry of the discards), `C02KOps` (K1: `KInv`, `GStep`),
  `C02KRows` (row form), `C02KRes` (`Slice`, `MeetsBait`, sticking out), `C02KSafe` (lookup covers the bait, deep rows),
  `C02KBuild` (lookup stage), `C02KResolve` (resolver), `C02KCut` (cutting, whole pipeline), `C02KAdded`, `C02KOut`,
  `C02KDeep` (K4).
-/
import AgpTpf.Proofs.C02KDeep
import AgpTpf.Properties.C02
import AgpTpf.Properties.C09Route
namespace AgpTpf.C02
open AgpTpf OverlapResult
open AgpTpf.C18 (Inv Short ids)
open AgpTpf.C01 (WFInput)

/-! ## the notions, spelled out (definitions in `Proofs/C02KPos.lean`, `C02KOps.lean`, `C02KRows.lean`) -/

/-- `rowAt src x`: the row covering scaffold position `x` (1-based): the first row whose cumulative end is `≥ x` -/
theorem rowAt_eq (r : Row) (rs : List Row) (x : Int) :
    rowAt [] x = none ∧ rowAt (r :: rs) x = if x ≤ r.length then some r else rowAt rs (x - r.length) := ⟨rfl, rfl⟩

/-- `ContigAt src x`: position `x ≥ 1` of the scaffold lies in a fragment row -/
theorem contigAt_iff (src : List Row) (x : Int) : ContigAt src x ↔ 1 ≤ x ∧ ∃ f, rowAt src x = some (.frag f) := Iff.rfl

/-- … equivalently (non-negative row lengths): `x` lies in the span of a fragment row of the scaffold -/
theorem contigAt_iff_span {src : List Row} (hlen : NonNeg src) (x : Int) :
    ContigAt src x ↔ ∃ X f Y, src = X ++ .frag f :: Y ∧ rowsLength X < x ∧ x ≤ rowsLength X + f.length := by
  constructor
  · rintro ⟨h1, f, hf⟩
    obtain ⟨X, Y, hs, q1, q2⟩ := rowAt_some_decomp src hlen x _ h1 hf
    exact ⟨X, f, Y, hs, q1, q2⟩
  · rintro ⟨X, f, Y, hs, q1, q2⟩
    have := rowsLength_nonneg (hlen.of_eq_append3 hs).1
    exact ⟨by omega, f, rowAt_frag hs hlen q1 q2⟩

theorem coreKept_iff (src : List Row) (M s0 e0 : Int) (o : OverlapResult) :
    CoreKept src M s0 e0 o ↔
      ∀ x, s0 ≤ x → x ≤ e0 → ContigAt src x → o.bait.start + M ≤ x → x ≤ o.bait.stop - M → o.start ≤ x ∧ x ≤ o.stop :=
  Iff.rfl

theorem boundary_iff (src : List Row) (y : Int) : Boundary src y ↔ ∃ X Y, src = X ++ Y ∧ y = rowsLength X := Iff.rfl

theorem edgeOK_iff (src : List Row) (o : OverlapResult) :
    EdgeOK src o ↔
      o.rows = [] ∨ ((Boundary src (o.start - 1) ∨ o.start = o.bait.start) ∧ (Boundary src o.stop ∨ o.stop = o.bait.stop)) :=
  Iff.rfl

theorem kinv_iff (src : List Row) (M s0 e0 : Int) (p : Fragment) (o : OverlapResult) :
    KInv src M s0 e0 p o ↔ Inv src o ∧ o.bait = p ∧ CoreKept src M s0 e0 o ∧ EdgeOK src o :=
  ⟨fun h => ⟨h.inv, h.bait, h.core, h.edge⟩, fun ⟨a, b, c, d⟩ => ⟨a, b, c, d⟩⟩

/-- the `Inv` part of `KInv` in index form (C18 `inv_index_form`): the rows of `o` are rows `i … i+n−1` of the source
    scaffold — every inner row `k` IS `src[i+k]` (gap rows included), the first / last row is `src[i]` / `src[i+n−1]`
    shortened only at its outer end, and `start` / `stop` are the prefix sums of `src` corrected by the shortening:
    the result is ONE contiguous run of the source scaffold. -/
theorem kinv_index_form {src : List Row} {M s0 e0 : Int} {p : Fragment} {o : OverlapResult} (h : KInv src M s0 e0 p o)
    (hne : o.rows ≠ []) :
    ∃ (i n : Nat) (dl dr : Int),
      o.rows.length = n ∧ 0 < n ∧ i + n ≤ src.length ∧ 0 ≤ dl ∧ 0 ≤ dr ∧
      (∀ k, 0 < k → k + 1 < n → o.rows[k]? = src[i + k]?) ∧
      (∃ r s, o.rows[0]? = some r ∧ src[i]? = some s ∧ Short r s dl (if n = 1 then dr else 0)) ∧
      (∃ r s, o.rows[n - 1]? = some r ∧ src[i + n - 1]? = some s ∧ Short r s (if n = 1 then dl else 0) dr) ∧
      o.start = 1 + rowsLength (src.take i) + dl ∧
      o.stop = rowsLength (src.take (i + n)) - dr :=
  C18.inv_index_form h.inv hne

/-- the guarded steps (`GStep err o o'`), one constructor per line:
    `trim_large_overhangs(err)`; `discard_start` under guard (a) for a first row not wholly inside the bait; under guard (b);
    the same two for `discard_end`; `trim_fragment` of the first or last row with a fresh object id -/
theorem gstep_iff (err : Int) (o o' : OverlapResult) :
    GStep err o o' ↔
      trimLargeOverhangs o err = .ok o' ∨
      (∃ ov r t, o.rows = r :: t ∧ startRowBaitOverlap o = .ok ov ∧ ov < err ∧
        (o.start < o.bait.start ∨ o.bait.stop < o.start + r.length - 1) ∧ discardStart o = .ok o') ∨
      (∃ a, overhangIfStartRemoved o = .ok a ∧ a > -3 * err ∧ discardStart o = .ok o') ∨
      (∃ ov r t, o.rows = t ++ [r] ∧ endRowBaitOverlap o = .ok ov ∧ ov < err ∧
        (o.stop - r.length + 1 < o.bait.start ∨ o.bait.stop < o.stop) ∧ discardEnd o = .ok o') ∨
      (∃ a, overhangIfEndRemoved o = .ok a ∧ a > -3 * err ∧ discardEnd o = .ok o') ∨
      (∃ f new ks ke oid, ((∃ t, o.rows = .frag f :: t) ∨ (∃ t, o.rows = t ++ [.frag f])) ∧ oid ∉ ids o.rows ∧
        trimFragment o f ks ke oid = .ok (o', new)) := by
  constructor
  · intro h
    cases h with
    | trimLarge h => exact Or.inl h
    | startA a b c d e => exact Or.inr (Or.inl ⟨_, _, _, a, b, c, d, e⟩)
    | startB a b c => exact Or.inr (Or.inr (Or.inl ⟨_, a, b, c⟩))
    | endA a b c d e => exact Or.inr (Or.inr (Or.inr (Or.inl ⟨_, _, _, a, b, c, d, e⟩)))
    | endB a b c => exact Or.inr (Or.inr (Or.inr (Or.inr (Or.inl ⟨_, a, b, c⟩))))
    | trim a b c => exact Or.inr (Or.inr (Or.inr (Or.inr (Or.inr ⟨_, _, _, _, _, a, b, c⟩))))
  · rintro (h | ⟨_, _, _, a, b, c, d, e⟩ | ⟨_, a, b, c⟩ | ⟨_, _, _, a, b, c, d, e⟩ | ⟨_, a, b, c⟩ | ⟨_, _, _, _, _, a, b, c⟩)
    · exact .trimLarge h
    · exact .startA a b c d e
    · exact .startB a b c
    · exact .endA a b c d e
    · exact .endB a b c
    · exact .trim a b c

theorem grun_iff (err : Int) (o o' : OverlapResult) :
    GRun err o o' ↔ o' = o ∨ ∃ o1, GRun err o o1 ∧ GStep err o1 o' := by
  constructor
  · intro h
    cases h with
    | refl => exact Or.inl rfl
    | step h1 h2 => exact Or.inr ⟨_, h1, h2⟩
  · rintro (rfl | ⟨o1, h1, h2⟩)
    · exact .refl
    · exact .step h1 h2

/-- `RowKept o f xs L r R dl dr` — what the row form says about the row `r` of the result that stands for the source
    contig row `f` lying at scaffold positions `xs+1 … xs+f.length` -/
theorem rowKept_iff (o : OverlapResult) (f : Fragment) (xs : Int) (L : List Row) (r : Row) (R : List Row) (dl dr : Int) :
    RowKept o f xs L r R dl dr ↔
      o.rows = L ++ r :: R ∧ Short r (.frag f) dl dr ∧ 0 ≤ dl ∧ 0 ≤ dr ∧
      (L ≠ [] → R ≠ [] → r = .frag f) ∧ (L ≠ [] → dl = 0) ∧ (R ≠ [] → dr = 0) ∧
      (dl ≠ 0 → o.start = o.bait.start) ∧ (dr ≠ 0 → o.stop = o.bait.stop) ∧
      o.start + rowsLength L = xs + 1 + dl ∧ o.stop - rowsLength R = xs + f.length - dr :=
  ⟨fun h => ⟨h.rows, h.short, h.dl0, h.dr0, h.inner, h.left, h.right, h.cutL, h.cutR, h.pos, h.posR⟩,
   fun ⟨a, b, c, d, e, f, g, h, i, j, k⟩ => ⟨a, b, c, d, e, f, g, h, i, j, k⟩⟩

/-- `SafeKept src err M o`: for every contig row `f` of `src` (at scaffold positions `|X|+1 … |X|+|f|`) sharing `≥ err`
    and `≥ 1` bases with the bait and reaching deeper than `M` from both ends of the bait, the part of `f` inside the
    bait lies inside `[o.start, o.stop]` -/
theorem safeKept_iff (src : List Row) (err M : Int) (o : OverlapResult) :
    SafeKept src err M o ↔
      ∀ X f Y, src = X ++ .frag f :: Y →
        err ≤ min (rowsLength X + f.length) o.bait.stop - max (rowsLength X + 1) o.bait.start + 1 →
        1 ≤ min (rowsLength X + f.length) o.bait.stop - max (rowsLength X + 1) o.bait.start + 1 →
        o.bait.start + M ≤ rowsLength X + f.length → rowsLength X + 1 ≤ o.bait.stop - M →
        o.start ≤ max (rowsLength X + 1) o.bait.start ∧ min (rowsLength X + f.length) o.bait.stop ≤ o.stop := Iff.rfl

/-! ## K1 — one result, any sequence of guarded operations -/

/-- **K1.**  `src` any scaffold with non-negative row lengths and pairwise distinct Fragment objects, `bait` any query,
    `o0` the lookup result, `o` obtained from it by any finite sequence of guarded operations (`GRun`): then `KInv` holds
    of `o` with margin `3·err`, relative to the span of `o0` — the C18 invariant, the bait is unchanged, every contig
    base of the lookup span in the core `[bait.start + 3·err, bait.stop − 3·err]` is still inside `[o.start, o.stop]`,
    and each end of `o` is a row boundary of `src` or lies exactly at the bait coordinate. -/
theorem ops_keep_core {src : List Row} {bait : Fragment} {o0 o : OverlapResult} {err : Int}
    (hlen : NonNeg src) (hd : (ids src).Nodup) (herr : 0 ≤ err)
    (hl : findOverlaps src bait = .ok (some o0)) (hrun : GRun err o0 o) :
    KInv src (3 * err) o0.start o0.stop bait o :=
  kinv_run hlen herr (kinv_lookup (3 * err) hd hl) hrun

/-- … with the lookup covering the bait, the reference to the lookup span can be dropped: EVERY contig base of the
    scaffold lying in the core is inside the result -/
theorem ops_keep_core_positions {src : List Row} {bait : Fragment} {o0 o : OverlapResult} {err : Int}
    (hlen : NonNeg src) (hd : (ids src).Nodup) (herr : 0 ≤ err)
    (hl : findOverlaps src bait = .ok (some o0)) (hrun : GRun err o0 o)
    {x : Int} (hc : ContigAt src x) (h1 : bait.start + 3 * err ≤ x) (h2 : x ≤ bait.stop - 3 * err) :
    o.start ≤ x ∧ x ≤ o.stop :=
  coreKept_all hlen (by omega) hl (ops_keep_core hlen hd herr hl hrun) hc h1 h2

/-- **K1, row form.**  A contig row `f` of the scaffold (`src = X ++ f :: Y`) that has a base `x` in the core is still a
    row of `o` (`RowKept`, see `rowKept_iff`): at its scaffold position; the source row itself if it is an inner row;
    shortened by `dl` / `dr` only if it is the first / last row, and then the result begins / ends exactly at the bait
    coordinate — so what was clipped lies left of `bait.start` / right of `bait.stop`, outside the core.  Together with
    `Inv` (all rows of `o` are a contiguous run of `src`, gaps included) the part of `o` inside the core is exactly the
    part of the source scaffold inside the core, as one contiguous run. -/
theorem ops_keep_core_rows {src : List Row} {bait : Fragment} {o0 o : OverlapResult} {err : Int}
    (hlen : NonNeg src) (hd : (ids src).Nodup) (herr : 0 ≤ err)
    (hl : findOverlaps src bait = .ok (some o0)) (hrun : GRun err o0 o)
    {X Y : List Row} {f : Fragment} (hs : src = X ++ .frag f :: Y) {x : Int}
    (hx1 : rowsLength X < x) (hx2 : x ≤ rowsLength X + f.length)
    (h1 : bait.start + 3 * err ≤ x) (h2 : x ≤ bait.stop - 3 * err) :
    ∃ L r R dl dr, RowKept o f (rowsLength X) L r R dl dr := by
  have hk := ops_keep_core hlen hd herr hl hrun
  have hc : ContigAt src x := (contigAt_iff_span hlen x).2 ⟨X, f, Y, hs, hx1, hx2⟩
  obtain ⟨c1, c2⟩ := lookup_covers_bait hlen hl hc (by omega) (by omega)
  exact core_row_kept hlen hk hs hx1 hx2 c1 c2 h1 h2

/-- what a `Short` row is (C18): same contig name and strand, coordinates moved in by `dl` at the scaffold-left side and
    `dr` at the scaffold-right side (left = `start` on a plus-strand contig, `end` otherwise) -/
theorem short_def (r s : Row) (dl dr : Int) :
    Short r s dl dr ↔
      ∃ f g, r = .frag f ∧ s = .frag g ∧ f.name = g.name ∧ f.strand = g.strand ∧
        (if g.strand = 1 then f.start = g.start + dl ∧ f.stop = g.stop - dr
         else f.start = g.start + dr ∧ f.stop = g.stop - dl) := Iff.rfl

/-! ### K1, non-vacuity and the finding F-K1 -/

instance (rows : List Row) : Decidable (NonNeg rows) := by unfold NonNeg; infer_instance

private def kfr (oid : Nat) (n : String) (s e st : Int) : Fragment :=
  { oid := oid, name := n.toList, start := s, stop := e, strand := st }
private def kgp (n : Int) : Row := .gap ⟨n, "scaffold".toList⟩
private def kbait (s e st : Int) : Fragment :=
  { name := "s".toList, start := s, stop := e, strand := st, tags := ["Painted".toList] }

/-- scaffold: a:1-100 at 1..100, gap 101..110, b:1-50(−) at 111..160, c:1-40 at 161..200 -/
private def ksrc : List Row := [.frag (kfr 1 "a" 1 100 1), kgp 10, .frag (kfr 2 "b" 1 50 (-1)), .frag (kfr 3 "c" 1 40 1)]
private def ko0 : OverlapResult :=
  { bait := kbait 98 196 1, start := 1, stop := 200, rows := ksrc, name := "matches".toList }
private theorem klookup : findOverlaps ksrc (kbait 98 196 1) = .ok (some ko0) := by decide +kernel
/-- `trim_large_overhangs(5)` throws `a` away (3 bases shared, 97 out) with the gap behind it; then `trim_fragment` cuts
    `c` to the bait's end 196 -/
private def ko1 : OverlapResult := { ko0 with start := 111, rows := [.frag (kfr 2 "b" 1 50 (-1)), .frag (kfr 3 "c" 1 40 1)] }
private def kcnew : Fragment := { oid := 9, name := "c".toList, start := 1, stop := 36, strand := 1, tags := ["Cut".toList] }
private def ko2 : OverlapResult := { ko1 with stop := 196, rows := [.frag (kfr 2 "b" 1 50 (-1)), .frag kcnew] }
private theorem krun : GRun 5 ko0 ko2 :=
  .step (.step .refl (.trimLarge (show trimLargeOverhangs ko0 5 = .ok ko1 by decide)))
    (.trim (f := kfr 3 "c" 1 40 1) (new := kcnew) (ks := false) (ke := false) (oid := 9)
      (Or.inr ⟨[.frag (kfr 2 "b" 1 50 (-1))], rfl⟩) (by decide) (by decide))
example : NonNeg ksrc ∧ (ids ksrc).Nodup := by constructor <;> decide
/-- the instance of K1: core `[113, 181]`; `a` (1..100) and the gap are gone, `b`, `c` stay, `c` cut at the bait's end -/
example : KInv ksrc 15 1 200 (kbait 98 196 1) ko2 :=
  ops_keep_core (err := 5) (by decide) (by decide) (by decide) klookup krun
example : ∃ L r R dl dr, RowKept ko2 (kfr 3 "c" 1 40 1) 160 L r R dl dr :=
  ops_keep_core_rows (err := 5) (X := [.frag (kfr 1 "a" 1 100 1), kgp 10, .frag (kfr 2 "b" 1 50 (-1))]) (Y := [])
    (x := 170) (by decide) (by decide) (by decide) klookup krun rfl (by decide) (by decide) (by decide) (by decide)

/-- **F-K1.**  Guard (a) alone does not protect the core: scaffold `gap(100), d:1-5, e:1-200`, bait `s:1-305`, `err = 10`
    (core `[31, 275]`).  The lookup starts at the contig `d` (positions 101..105, deep inside the core); `d` shares
    5 < 10 bases with the bait, so guard (a) holds; `discard_start` removes it: position 101 is a contig base in the core
    that is no longer inside the result.  (`d` lies wholly inside the bait — the case `GStep.startA` excludes.) -/
private def ksrcF : List Row := [kgp 100, .frag (kfr 1 "d" 1 5 1), .frag (kfr 2 "e" 1 200 1)]
private def koF0 : OverlapResult :=
  { bait := kbait 1 305 1, start := 101, stop := 305, rows := [.frag (kfr 1 "d" 1 5 1), .frag (kfr 2 "e" 1 200 1)],
    name := "matches".toList }
private def koF1 : OverlapResult := { koF0 with start := 106, rows := [.frag (kfr 2 "e" 1 200 1)] }
theorem guard_a_alone_is_not_enough :
    findOverlaps ksrcF (kbait 1 305 1) = .ok (some koF0) ∧
    startRowBaitOverlap koF0 = .ok 5 ∧ (5 : Int) < 10 ∧ discardStart koF0 = .ok koF1 ∧
    ContigAt ksrcF 101 ∧ (kbait 1 305 1).start + 3 * 10 ≤ 101 ∧ 101 ≤ (kbait 1 305 1).stop - 3 * 10 ∧
    ¬ CoreKept ksrcF (3 * 10) koF0.start koF0.stop koF1 := by
  have hc : ContigAt ksrcF 101 := ⟨by decide, kfr 1 "d" 1 5 1, by decide⟩
  refine ⟨by decide +kernel, by decide, by decide, by decide, hc, by decide, by decide, ?_⟩
  intro h
  have := (h 101 (by decide) (by decide) hc (by decide) (by decide)).1
  exact absurd this (by decide)

/-! ## K2 — the build returned by `remap_to_input_assembly` -/

theorem inputNonNeg_iff (input : List Scaffold) : InputNonNeg input ↔ ∀ sc ∈ input, ∀ r ∈ sc.rows, 0 ≤ r.length := Iff.rfl

theorem ptxDisjoint_iff (ptx : List Scaffold) :
    PtxDisjoint ptx ↔
      (ptx.flatMap Scaffold.fragments).Pairwise (fun p q => p.name = q.name → p.stop < q.start ∨ q.stop < p.start) :=
  Iff.rfl

/-- **K2.**  Well-formed input without negative gap lengths, pairwise disjoint baits, `err ≥ 0`,
    `remap_to_input_assembly` returns `b`.  Then the stored results correspond one to one, in order, to the pieces
    `C09.pieces input false ptx` (the Pretext fragments whose lookup finds something, file order), and for the `sid`-th
    piece `c = (seen, S, p)` with result `r = b.store[sid]`:
    * `r.o.bait = p`; `p` names the input scaffold `sc`, whose lookup of `p` gave `o0`;
    * `KInv sc.rows (3·err) o0.start o0.stop p r.o` — C18's `Inv` w.r.t. `sc` (contiguous run of `sc`'s rows, gaps
      included, only terminal fragments shortened), and both ends on a row boundary or exactly at the bait coordinate;
    * EVERY contig base of `sc` in the core `[p.start + 3·err, p.stop − 3·err]` lies inside `[r.o.start, r.o.stop]`;
    * row form: every contig row of `sc` with a base in the core is still a row of `r.o`, unshortened unless terminal and
      then cut exactly at the bait coordinate (`RowKept`). -/
theorem remap_keeps_core (input ptx : List Scaffold) (prefix_ : Str) (joinGap : Option Gap) (err : Int) (b : Build)
    (hwf : WFInput input) (hnn : InputNonNeg input) (hdis : PtxDisjoint ptx) (herr : 0 ≤ err)
    (h : remapToInput input ptx prefix_ joinGap err = .ok b) :
    b.store.length = (C09.pieces input false ptx).length ∧
    ∀ (sid : Nat) (c : Bool × Scaffold × Fragment), (C09.pieces input false ptx)[sid]? = some c →
      ∃ r sc o0, b.store[sid]? = some r ∧ r.o.bait = c.2.2 ∧
        sc ∈ input ∧ sc.name = c.2.2.name ∧ findOverlaps sc.rows c.2.2 = .ok (some o0) ∧
        KInv sc.rows (3 * err) o0.start o0.stop c.2.2 r.o ∧
        (∀ x, ContigAt sc.rows x → c.2.2.start + 3 * err ≤ x → x ≤ c.2.2.stop - 3 * err → r.o.start ≤ x ∧ x ≤ r.o.stop) ∧
        (∀ (X Y : List Row) (f : Fragment) (x : Int), sc.rows = X ++ .frag f :: Y →
          rowsLength X < x → x ≤ rowsLength X + f.length → c.2.2.start + 3 * err ≤ x → x ≤ c.2.2.stop - 3 * err →
          ∃ L row R dl dr, RowKept r.o f (rowsLength X) L row R dl dr) := by
  obtain ⟨hview, hpiece, _⟩ := C09.piece_tag input ptx prefix_ joinGap err b h
  have hcore := remapToInput_core input ptx prefix_ joinGap err b hwf hnn hdis herr h
  refine ⟨by simpa using congrArg List.length hview, ?_⟩
  intro sid c hc
  obtain ⟨r, hr, _, _, _, hb⟩ := hpiece sid c hc
  obtain ⟨sc, o0, hsc, hname, hl, hK, _⟩ := hcore r (List.mem_of_getElem? hr)
  rw [hb] at hname hl hK
  have hlen := hnn sc hsc
  refine ⟨r, sc, o0, hr, hb, hsc, hname, hl, hK, ?_, ?_⟩
  · intro x hx h1 h2
    exact coreKept_all hlen (by omega) hl hK hx h1 h2
  · intro X Y f x hs hx1 hx2 h1 h2
    have hcg : ContigAt sc.rows x := (contigAt_iff_span hlen x).2 ⟨X, f, Y, hs, hx1, hx2⟩
    obtain ⟨c1, c2⟩ := lookup_covers_bait hlen hl hcg (by omega) (by omega)
    exact core_row_kept hlen hK hs hx1 hx2 c1 c2 h1 h2

/-- **K2b — deep rows survive.**  Same hypotheses.  `r` a stored result, `sc` the input scaffold its bait `p` names, `f` a
    contig row of `sc` at scaffold positions `[fs, fe] = [|X|+1, |X|+|f|]` that shares at least `err` and at least one
    base with `p` and reaches deeper than `3·err` from both ends of `p` (`p.start + 3·err ≤ fe`, `fs ≤ p.stop − 3·err`).
    Then the part of `f` inside the bait is inside `[r.o.start, r.o.stop]`, and `f` is still a row of `r.o`, unshortened
    unless terminal and then cut exactly at the bait coordinate (`RowKept`).  No condition on the length of the piece. -/
theorem deep_row_survives (input ptx : List Scaffold) (prefix_ : Str) (joinGap : Option Gap) (err : Int) (b : Build)
    (hwf : WFInput input) (hnn : InputNonNeg input) (hdis : PtxDisjoint ptx) (herr : 0 ≤ err)
    (h : remapToInput input ptx prefix_ joinGap err = .ok b) {r : Res} (hr : r ∈ b.store)
    {sc : Scaffold} (hsc : sc ∈ input) (hn : sc.name = r.o.bait.name)
    {X Y : List Row} {f : Fragment} (hs : sc.rows = X ++ .frag f :: Y)
    (h1 : err ≤ min (rowsLength X + f.length) r.o.bait.stop - max (rowsLength X + 1) r.o.bait.start + 1)
    (h2 : 1 ≤ min (rowsLength X + f.length) r.o.bait.stop - max (rowsLength X + 1) r.o.bait.start + 1)
    (h3 : r.o.bait.start + 3 * err ≤ rowsLength X + f.length) (h4 : rowsLength X + 1 ≤ r.o.bait.stop - 3 * err) :
    (r.o.start ≤ max (rowsLength X + 1) r.o.bait.start ∧ min (rowsLength X + f.length) r.o.bait.stop ≤ r.o.stop) ∧
    ∃ L row R dl dr, RowKept r.o f (rowsLength X) L row R dl dr :=
  deep_row_kept input ptx prefix_ joinGap err b hwf hnn hdis herr h hr hsc hn hs h1 h2 h3 h4

/-! ### K2: the finding F-K2 — overlapping baits -/

private def kjg : Gap := { length := 200, gapType := "scaffold".toList }
private def kpc (n : Str) (s e st : Int) : Row := .frag { name := n, start := s, stop := e, strand := st }
private def kview (b : Build) : List (Int × Int × Int × Int × List Key) :=
  b.store.map (fun r => (r.o.bait.start, r.o.bait.stop, r.o.start, r.o.stop, C01.keysOf r.o.rows))

/-- input scaffold `s`: a:1-50 at 1..50, gap 51..150, d:1-5 at 151..155, y:1-200 at 156..355 -/
private def kinO : List Scaffold :=
  [{ name := "s".toList, rows := [.frag (kfr 1 "a" 1 50 1), kgp 100, .frag (kfr 2 "d" 1 5 1), .frag (kfr 3 "y" 1 200 1)] }]
/-- two OVERLAPPING Pretext fragments: `s:151-155` (exactly the contig `d`) and `s:60-355` -/
private def kptxO : List Scaffold :=
  [{ name := "P1".toList, rows := [kpc "s".toList 151 155 1] }, { name := "P2".toList, rows := [kpc "s".toList 60 355 1] }]

set_option synthInstance.maxSize 1024 in
/-- **F-K2.**  `err = 10`: the piece `s:60-355` has the core `[90, 325]`; the contig `d` at 151..155 lies deep inside it.
    Both pieces hold `d`, both share `5 < err` bases with it, the tie goes to the second premise: `d` is removed from the
    piece `s:60-355`, whose result then begins at 156.  `remap_to_input_assembly` completes.  All hypotheses of K2 hold
    except `PtxDisjoint`. -/
theorem overlapping_baits_lose_core :
    WFInput kinO ∧ InputNonNeg kinO ∧ ¬ PtxDisjoint kptxO ∧
    (remapToInput kinO kptxO [] (some kjg) 10).toOption.map kview =
      some [(151, 155, 151, 155, [("d".toList, 1, 5)]), (60, 355, 156, 355, [("y".toList, 1, 200)])] ∧
    ContigAt (kinO.flatMap (·.rows)) 151 ∧ (60 : Int) + 3 * 10 ≤ 151 ∧ (151 : Int) ≤ 355 - 3 * 10 ∧ ¬ ((156 : Int) ≤ 151) := by
  refine ⟨by decide, by decide, by decide, by decide +kernel, ⟨by decide, kfr 2 "d" 1 5 1, by decide⟩, by decide, by decide,
    by decide⟩

/-! ## K3 — the output -/

/-- a fragment row of a result appears in `to_scaffold()` with the same contig interval (strand negated for a `−` piece) -/
theorem frag_mem_toScaffoldRows {o : OverlapResult} {g : Fragment} (h : Row.frag g ∈ o.rows) :
    ∃ g', Row.frag g' ∈ o.toScaffoldRows ∧ g'.keyTuple = g.keyTuple := by
  unfold toScaffoldRows
  split
  · exact ⟨g.reverse, List.mem_map.mpr ⟨.frag g, List.mem_reverse.mpr h, rfl⟩, rfl⟩
  · exact ⟨g, h, rfl⟩

/-- **K3.**  Hypotheses of K2 and `remap` completes with `(outs, stats)`.  With `b` the build `remap_to_input_assembly`
    returned: for the `sid`-th piece `c = (seen, S, p)`, its stored result `r` and input scaffold `sc` — IF the core of
    the piece holds a contig base `x` of `sc`, THEN
    * the result still has rows and was appended, and there is an output assembly `a` with key
      `C09.routeKey r.o.tag r.o.haplotype` and a scaffold `s` of it (carrying the result's tag and haplotype) such that
      `r.o.toScaffoldRows` is a contiguous block of `s.rows` — the core's rows (K2, row form) therefore appear there as
      one contiguous run with the input's gap rows between them;
    * orientation: for `p.strand = ±1`, `toScaffoldRows` is `rows` (reversed iff `p.strand = −1`) with every fragment's
      strand multiplied by `p.strand` — input orientation × piece orientation;
    * exactly one: ANY fragment of ANY scaffold `s'` of ANY output assembly `a'` that shares a contig base with a fragment
      of the piece forces `a' = a` and `s' = s`. -/
theorem remap_core_in_one_scaffold (input ptx : List Scaffold) (prefix_ : Str) (joinGap : Option Gap) (err : Int)
    (outs : List OutAsm) (stats : Stats)
    (hwf : WFInput input) (hnn : InputNonNeg input) (hdis : PtxDisjoint ptx) (herr : 0 ≤ err)
    (h : remap input ptx prefix_ joinGap err = .ok (outs, stats)) :
    ∃ b, remapToInput input ptx prefix_ joinGap err = .ok b ∧
      ∀ (sid : Nat) (c : Bool × Scaffold × Fragment), (C09.pieces input false ptx)[sid]? = some c →
        ∃ r sc, b.store[sid]? = some r ∧ r.o.bait = c.2.2 ∧ sc ∈ input ∧ sc.name = c.2.2.name ∧
          ∀ x, ContigAt sc.rows x → c.2.2.start + 3 * err ≤ x → x ≤ c.2.2.stop - 3 * err →
            r.o.rows ≠ [] ∧ r.added = true ∧
            ∃ a ∈ outs, a.key = C09.routeKey r.o.tag r.o.haplotype ∧
              ∃ s ∈ a.scaffolds, s.tag = r.o.tag ∧ s.haplotype = r.o.haplotype ∧ r.o.toScaffoldRows <:+: s.rows ∧
                ((c.2.2.strand = 1 ∨ c.2.2.strand = -1) →
                  r.o.toScaffoldRows =
                    (if c.2.2.strand = -1 then r.o.rows.reverse else r.o.rows).map (orientRow c.2.2.strand)) ∧
                (∀ a' ∈ outs, ∀ s' ∈ a'.scaffolds, ∀ g f', Row.frag g ∈ r.o.toScaffoldRows → Row.frag f' ∈ s'.rows →
                  f'.name = g.name → (∃ y, g.start ≤ y ∧ y ≤ g.stop ∧ f'.start ≤ y ∧ y ≤ f'.stop) →
                  a' = a ∧ s' = s) := by
  obtain ⟨b, hb, _, hroute, _, _⟩ := C09.remap_routes_store input ptx prefix_ joinGap err outs stats h
  refine ⟨b, hb, ?_⟩
  obtain ⟨_, hk2⟩ := remap_keeps_core input ptx prefix_ joinGap err b hwf hnn hdis herr hb
  have hadd := remapToInput_addedOK input ptx prefix_ joinGap err b hb
  intro sid c hc
  obtain ⟨r, sc, o0, hr, hbait, hsc, hname, _, hK, hpos, _⟩ := hk2 sid c hc
  refine ⟨r, sc, hr, hbait, hsc, hname, ?_⟩
  intro x hx h1 h2
  obtain ⟨p1, p2⟩ := hpos x hx h1 h2
  have hne : r.o.rows ≠ [] := by
    intro he
    have := hK.inv.span
    rw [he, C18.rowsLength_nil] at this
    omega
  have hra : r.added = true := by
    cases hcase : r.added with
    | true => rfl
    | false => exact absurd (hadd r (List.mem_of_getElem? hr) hcase) hne
  obtain ⟨a, ha, hkey, s, hs, htag, hhap, hinf⟩ := hroute r (List.mem_of_getElem? hr) hra hne
  refine ⟨hne, hra, a, ha, hkey, s, hs, htag, hhap, hinf, ?_, ?_⟩
  · intro hst
    rw [← hbait] at hst ⊢
    exact (to_scaffold_orientation hst).1
  · intro a' ha' s' hs' g f' hg hf' hnm ⟨y, y1, y2, y3, y4⟩
    have hgs : Row.frag g ∈ s.rows := hinf.subset hg
    have e1 : a = a' := C09.shared_base_one_assembly input ptx prefix_ joinGap err outs stats hwf h a a' ha ha' s s' hs hs'
      g f' hgs hf' hnm.symm y ⟨y1, y2⟩ ⟨y3, y4⟩
    subst e1
    exact ⟨rfl, (shared_base_same_scaffold input ptx prefix_ joinGap err outs stats hwf h a ha s s' hs hs' g f' hgs hf'
      hnm.symm y ⟨y1, y2⟩ ⟨y3, y4⟩).symm⟩

/-! ## K4 — a deep cut splits the contig exactly at the Pretext coordinate, for any map -/

/-- **K4 (stored results).**  Hypotheses of K2.  Two stored results `r1 = b.store[i]`, `r2 = b.store[j]`, `i ≠ j`, whose
    baits lie on the same input scaffold `sc` and meet at `c | c+1` (`r1.bait.stop = c`, `r2.bait.start = c+1`); the
    boundary falls inside the contig row `f` of `sc` (`sc.rows = X ++ f :: Y`, scaffold span `[cs, ce] =
    [|X|+1, |X|+|f|]`) deeper than the margin: `cs + 3·err < c < ce − 3·err`; each piece is non-empty and has at least `err`
    bases.  Then `r1.o.rows` ends with a part `g1` of `f`,
    `r2.o.rows` begins with a part `g2` of `f`, `r1.o.stop = c`, `r2.o.start = c+1`, and the parts meet exactly at the
    designated coordinate: forward contig — `g1.stop = f.stop − (ce − c)`, `g2.start = g1.stop + 1`; reverse contig —
    `g1.start = f.start + (ce − c)`, `g2.stop + 1 = g1.start`. -/
theorem deep_cut_exact_any_map (input ptx : List Scaffold) (prefix_ : Str) (joinGap : Option Gap) (err : Int) (b : Build)
    (hwf : WFInput input) (hnn : InputNonNeg input) (hdis : PtxDisjoint ptx) (herr : 0 ≤ err)
    (h : remapToInput input ptx prefix_ joinGap err = .ok b)
    {i j : Nat} {r1 r2 : Res} (hne : i ≠ j) (hi : b.store[i]? = some r1) (hj : b.store[j]? = some r2)
    {c : Int} (hc1 : r1.o.bait.stop = c) (hc2 : r2.o.bait.start = c + 1)
    {sc : Scaffold} (hsc : sc ∈ input) (hn1 : sc.name = r1.o.bait.name) (hn2 : sc.name = r2.o.bait.name)
    {X Y : List Row} {f : Fragment} (hs : sc.rows = X ++ .frag f :: Y)
    (hd1 : rowsLength X + 1 + 3 * err < c) (hd2 : c < rowsLength X + f.length - 3 * err)
    (hp1 : r1.o.bait.start ≤ c) (hl1 : r1.o.bait.start + err ≤ c + 1)
    (hp2 : c + 1 ≤ r2.o.bait.stop) (hl2 : c + err ≤ r2.o.bait.stop) :
    ∃ L g1 g2 R, r1.o.rows = L ++ [.frag g1] ∧ r2.o.rows = .frag g2 :: R ∧ r1.o.stop = c ∧ r2.o.start = c + 1 ∧
      g1.name = f.name ∧ g2.name = f.name ∧ g1.strand = f.strand ∧ g2.strand = f.strand ∧
      (if f.strand = 1 then g1.stop = f.stop - (rowsLength X + f.length - c) ∧ g2.start = g1.stop + 1
       else g1.start = f.start + (rowsLength X + f.length - c) ∧ g2.stop + 1 = g1.start) :=
  deep_cut_rows input ptx prefix_ joinGap err b hwf hnn hdis herr h hne hi hj hc1 hc2 hsc hn1 hn2 hs hd1 hd2 hp1 hl1 hp2 hl2

/-- **K4 (output).**  … and when `remap` completes, the output contains two fragments `h1`, `h2` of that contig — in
    scaffolds of the assemblies the two pieces are routed to — meeting exactly at the designated coordinate.
    NOTE (F-K4): the side conditions "each piece is non-empty and has at least `err` bases" are not in the task's wording
    of K4; see the header. -/
theorem deep_cut_exact_any_map_output (input ptx : List Scaffold) (prefix_ : Str) (joinGap : Option Gap) (err : Int)
    (outs : List OutAsm) (stats : Stats)
    (hwf : WFInput input) (hnn : InputNonNeg input) (hdis : PtxDisjoint ptx) (herr : 0 ≤ err)
    (h : remap input ptx prefix_ joinGap err = .ok (outs, stats)) :
    ∃ b, remapToInput input ptx prefix_ joinGap err = .ok b ∧
      ∀ (i j : Nat) (r1 r2 : Res) (c : Int) (sc : Scaffold) (X Y : List Row) (f : Fragment),
        i ≠ j → b.store[i]? = some r1 → b.store[j]? = some r2 → r1.o.bait.stop = c → r2.o.bait.start = c + 1 →
        sc ∈ input → sc.name = r1.o.bait.name → sc.name = r2.o.bait.name → sc.rows = X ++ .frag f :: Y →
        rowsLength X + 1 + 3 * err < c → c < rowsLength X + f.length - 3 * err →
        r1.o.bait.start ≤ c → r1.o.bait.start + err ≤ c + 1 → c + 1 ≤ r2.o.bait.stop → c + err ≤ r2.o.bait.stop →
        ∃ a1 ∈ outs, ∃ s1 ∈ a1.scaffolds, ∃ a2 ∈ outs, ∃ s2 ∈ a2.scaffolds, ∃ h1 h2,
          a1.key = C09.routeKey r1.o.tag r1.o.haplotype ∧ a2.key = C09.routeKey r2.o.tag r2.o.haplotype ∧
          Row.frag h1 ∈ s1.rows ∧ Row.frag h2 ∈ s2.rows ∧ h1.name = f.name ∧ h2.name = f.name ∧
          (if f.strand = 1 then h1.stop = f.stop - (rowsLength X + f.length - c) ∧ h2.start = h1.stop + 1
           else h1.start = f.start + (rowsLength X + f.length - c) ∧ h2.stop + 1 = h1.start) := by
  obtain ⟨b, hb, _, hroute, _, _⟩ := C09.remap_routes_store input ptx prefix_ joinGap err outs stats h
  refine ⟨b, hb, ?_⟩
  have hadd := remapToInput_addedOK input ptx prefix_ joinGap err b hb
  intro i j r1 r2 c sc X Y f hne hi hj hc1 hc2 hsc hn1 hn2 hs hd1 hd2 hp1 hl1 hp2 hl2
  obtain ⟨L, g1, g2, R, e1, e2, _, _, n1, n2, _, _, hco⟩ :=
    deep_cut_rows input ptx prefix_ joinGap err b hwf hnn hdis herr hb hne hi hj hc1 hc2 hsc hn1 hn2 hs hd1 hd2 hp1 hl1 hp2 hl2
  have out : ∀ (r : Res) (g : Fragment), r ∈ b.store → Row.frag g ∈ r.o.rows →
      ∃ a ∈ outs, ∃ s ∈ a.scaffolds, ∃ g', a.key = C09.routeKey r.o.tag r.o.haplotype ∧ Row.frag g' ∈ s.rows ∧
        g'.keyTuple = g.keyTuple := by
    intro r g hr hg
    have hne' : r.o.rows ≠ [] := fun he => by rw [he] at hg; cases hg
    have hra : r.added = true := by
      cases hcase : r.added with
      | true => rfl
      | false => exact absurd (hadd r hr hcase) hne'
    obtain ⟨a, ha, hkey, s, hs', _, _, hinf⟩ := hroute r hr hra hne'
    obtain ⟨g', hg', hk⟩ := frag_mem_toScaffoldRows hg
    exact ⟨a, ha, s, hs', g', hkey, hinf.subset hg', hk⟩
  obtain ⟨a1, ha1, s1, hs1, h1, k1, m1, t1⟩ := out r1 g1 (List.mem_of_getElem? hi) (by rw [e1]; simp)
  obtain ⟨a2, ha2, s2, hs2, h2, k2, m2, t2⟩ := out r2 g2 (List.mem_of_getElem? hj) (by rw [e2]; simp)
  simp only [Fragment.keyTuple, Prod.mk.injEq] at t1 t2
  refine ⟨a1, ha1, s1, hs1, a2, ha2, s2, hs2, h1, h2, k1, k2, m1, m2, t1.1.trans n1, t2.1.trans n2, ?_⟩
  rw [t1.2.1, t1.2.2, t2.2.1, t2.2.2]
  exact hco

/-! ## non-vacuity of K2–K4 -/

/-! ### (1) the map of `C02Deep`'s example: two deep cuts (one forward, one reverse contig), pieces swapped and reversed -/

private def kg10 : Gap := { length := 10, gapType := "scaffold".toList }
private def kg5 : Gap := { length := 5, gapType := "scaffold".toList }
private def ka1 : Fragment := { oid := 1, name := "ctgA1".toList, start := 1, stop := 100, strand := 1 }
private def ka2 : Fragment := { oid := 2, name := "ctgA2".toList, start := 1, stop := 80, strand := -1 }
private def ka3 : Fragment := { oid := 3, name := "ctgA3".toList, start := 1, stop := 40, strand := 1 }
private def kb1 : Fragment := { oid := 4, name := "ctgB1".toList, start := 1, stop := 80, strand := 1 }
private def kb2 : Fragment := { oid := 5, name := "ctgB2".toList, start := 1, stop := 60, strand := 1 }
/-- 240 bp: a1 1-100, gap, a2 111-190 (reverse contig), gap, a3 201-240 -/
private def ksA : Scaffold := { name := "scaffold_1".toList, rows := [.frag ka1, .gap kg10, .frag ka2, .gap kg10, .frag ka3] }
/-- 145 bp: b1 1-80, gap, b2 86-145 -/
private def ksB : Scaffold := { name := "scaffold_2".toList, rows := [.frag kb1, .gap kg5, .frag kb2] }
private def kinp : List Scaffold := [ksA, ksB]
/-- `scaffold_1` cut at 48 | 49 (inside the forward contig a1) and at 150 | 151 (inside the reverse contig a2, 111..190);
    `scaffold_2` cut at 82 | 83 (inside its gap) -/
private def kptx : List Scaffold :=
  [{ name := "Scaffold_1".toList, rows := [kpc ksA.name 49 150 (-1), .gap kjg, kpc ksB.name 1 82 1] },
   { name := "Scaffold_2".toList,
     rows := [kpc ksB.name 83 145 1, .gap kjg, kpc ksA.name 151 240 1, .gap kjg, kpc ksA.name 1 48 (-1)] }]

/-- the hypotheses of K2–K4 hold (decided), with `err = 5` (margin 15) -/
example : WFInput kinp ∧ InputNonNeg kinp ∧ PtxDisjoint kptx ∧ (0 : Int) ≤ 5 := by
  refine ⟨by decide, by decide, by decide, by decide⟩

set_option synthInstance.maxSize 1024 in
/-- what `remap_to_input_assembly` returns, evaluated by the kernel: bait, span and rows of the five stored results -/
private theorem kdeep_store :
    (remapToInput kinp kptx "SUPER_".toList (some kjg) 5).toOption.map kview =
      some [(49, 150, 49, 150, [("ctgA1".toList, 49, 100), ("ctgA2".toList, 41, 80)]),
            (1, 82, 1, 80, [("ctgB1".toList, 1, 80)]),
            (83, 145, 86, 145, [("ctgB2".toList, 1, 60)]),
            (151, 240, 151, 240, [("ctgA2".toList, 1, 40), ("ctgA3".toList, 1, 40)]),
            (1, 48, 1, 48, [("ctgA1".toList, 1, 48)])] := by decide +kernel

/-- K2 applied: there IS a build, and every piece's result satisfies `KInv` (here only the existence is displayed) -/
example : ∃ b, remapToInput kinp kptx "SUPER_".toList (some kjg) 5 = .ok b ∧
    b.store.length = (C09.pieces kinp false kptx).length := by
  have hv := kdeep_store
  cases hr : remapToInput kinp kptx "SUPER_".toList (some kjg) 5 with
  | error e => rw [hr] at hv; simp [Except.toOption] at hv
  | ok b => exact ⟨b, rfl, (remap_keeps_core kinp kptx _ _ 5 b (by decide) (by decide) (by decide) (by decide) hr).1⟩

private def kbaits (b : Build) : List (Str × Int × Int) :=
  b.store.map (fun r => (r.o.bait.name, r.o.bait.start, r.o.bait.stop))

set_option synthInstance.maxSize 1024 in
private theorem kdeep_baits :
    (remapToInput kinp kptx "SUPER_".toList (some kjg) 5).toOption.map kbaits =
      some [(ksA.name, 49, 150), (ksB.name, 1, 82), (ksB.name, 83, 145), (ksA.name, 151, 240), (ksA.name, 1, 48)] := by
  decide +kernel

/-- **K4 applied** to the cut 48 | 49 inside the forward contig a1 (`X = []`, `[cs, ce] = [1, 100]`, `c = 48`): result 4
    (piece `1..48`) ends with a part of a1 ending at 48, result 0 (piece `49..150`) begins with a part beginning at 49 —
    all hypotheses of `deep_cut_exact_any_map` discharged -/
example : ∃ b r1 r2, remapToInput kinp kptx "SUPER_".toList (some kjg) 5 = .ok b ∧
    b.store[4]? = some r1 ∧ b.store[0]? = some r2 ∧
    ∃ L g1 g2 R, r1.o.rows = L ++ [.frag g1] ∧ r2.o.rows = .frag g2 :: R ∧ r1.o.stop = 48 ∧ r2.o.start = 49 ∧
      g1.name = ka1.name ∧ g2.name = ka1.name ∧ g1.stop = 48 ∧ g2.start = 49 := by
  have hv := kdeep_baits
  cases hr : remapToInput kinp kptx "SUPER_".toList (some kjg) 5 with
  | error e => rw [hr] at hv; simp [Except.toOption] at hv
  | ok b =>
    rw [hr] at hv
    simp only [Except.toOption, Option.map_some, Option.some.injEq, kbaits] at hv
    have hv' : b.store.map (fun r => (r.o.bait.name, r.o.bait.start, r.o.bait.stop)) =
        [(ksA.name, (49 : Int), (150 : Int)), (ksB.name, 1, 82), (ksB.name, 83, 145), (ksA.name, 151, 240),
          (ksA.name, 1, 48)].map id := by rw [List.map_id]; exact hv
    obtain ⟨r1, h1, e1⟩ := C09.getElem?_of_map_eq _ id _ _ hv' 4 _ rfl
    obtain ⟨r2, h2, e2⟩ := C09.getElem?_of_map_eq _ id _ _ hv' 0 _ rfl
    simp only [id, Prod.mk.injEq] at e1 e2
    obtain ⟨L, g1, g2, R, a1, a2, a3, a4, a5, a6, _, _, a9⟩ :=
      deep_cut_exact_any_map kinp kptx _ _ 5 b (by decide) (by decide) (by decide) (by decide) hr
        (i := 4) (j := 0) (by decide) h1 h2 (c := 48) e1.2.2 (by rw [e2.2.1]; decide) (sc := ksA) (by decide) e1.1.symm e2.1.symm
        (X := []) (Y := [.gap kg10, .frag ka2, .gap kg10, .frag ka3]) (f := ka1) rfl (by decide) (by decide)
        (by rw [e1.2.1]; decide) (by rw [e1.2.1]; decide) (by rw [e2.2.2]; decide) (by rw [e2.2.2]; decide)
    rw [if_pos (by decide)] at a9
    have e : ka1.stop - (rowsLength [] + ka1.length - 48) = 48 := by decide
    rw [e] at a9
    exact ⟨b, r1, r2, rfl, h1, h2, L, g1, g2, R, a1, a2, a3, a4, a5, a6, a9.1, by rw [a9.2, a9.1]; decide⟩

set_option synthInstance.maxSize 1024 in
private theorem kdeep_baits9 :
    (remapToInput kinp kptx "SUPER_".toList (some kjg) 9).toOption.map kbaits =
      some [(ksA.name, 49, 150), (ksB.name, 1, 82), (ksB.name, 83, 145), (ksA.name, 151, 240), (ksA.name, 1, 48)] := by
  decide +kernel

/-- **K2b applied**, `err = 9` (margin 27): the piece `scaffold_1:1-48` is shorter than `2·27`, its core `[28, 21]` is
    empty and K2 says nothing about it — but the contig a1 (1..100) shares 48 ≥ 9 bases with it and reaches deeper than
    27 from both of its ends (`1 + 27 ≤ 100`, `1 ≤ 48 − 27`), so it stays: positions 1..48 are inside the result -/
example : ∃ b r, remapToInput kinp kptx "SUPER_".toList (some kjg) 9 = .ok b ∧ b.store[4]? = some r ∧
    r.o.start ≤ 1 ∧ 48 ≤ r.o.stop ∧ ∃ L row R dl dr, RowKept r.o ka1 0 L row R dl dr := by
  have hv := kdeep_baits9
  cases hr : remapToInput kinp kptx "SUPER_".toList (some kjg) 9 with
  | error e => rw [hr] at hv; simp [Except.toOption] at hv
  | ok b =>
    rw [hr] at hv
    simp only [Except.toOption, Option.map_some, Option.some.injEq, kbaits] at hv
    have hv' : b.store.map (fun r => (r.o.bait.name, r.o.bait.start, r.o.bait.stop)) =
        [(ksA.name, (49 : Int), (150 : Int)), (ksB.name, 1, 82), (ksB.name, 83, 145), (ksA.name, 151, 240),
          (ksA.name, 1, 48)].map id := by rw [List.map_id]; exact hv
    obtain ⟨r, h1, e1⟩ := C09.getElem?_of_map_eq _ id _ _ hv' 4 _ rfl
    simp only [id, Prod.mk.injEq] at e1
    obtain ⟨⟨q1, q2⟩, hrow⟩ := deep_row_survives kinp kptx _ _ 9 b (by decide) (by decide) (by decide) (by decide) hr
      (List.mem_of_getElem? h1) (sc := ksA) (by decide) e1.1.symm
      (X := []) (Y := [.gap kg10, .frag ka2, .gap kg10, .frag ka3]) (f := ka1) rfl
      (by rw [e1.2.1, e1.2.2]; decide) (by rw [e1.2.1, e1.2.2]; decide) (by rw [e1.2.1]; decide) (by rw [e1.2.2]; decide)
    rw [e1.2.1] at q1
    rw [e1.2.2] at q2
    have c1 : max (rowsLength [] + 1) (1 : Int) = 1 := by decide
    have c2 : min (rowsLength [] + ka1.length) (48 : Int) = 48 := by decide
    rw [c1] at q1
    rw [c2] at q2
    exact ⟨b, r, rfl, h1, q1, q2, hrow⟩

/-- the instances of K4's numeric hypotheses for the two cuts: a1 at `[cs, ce] = [1, 100]`, `c = 48`, pieces `1..48` and
    `49..150`; a2 (reverse) at `[111, 190]`, `c = 150`, pieces `49..150` and `151..240`; margin 15 -/
example : (0 + 1 + 3 * 5 < (48 : Int)) ∧ ((48 : Int) < 0 + 100 - 3 * 5) ∧ ((1 : Int) + 5 ≤ 48 + 1) ∧
    ((48 : Int) + 5 ≤ 150) := by decide
example : (110 + 1 + 3 * 5 < (150 : Int)) ∧ ((150 : Int) < 110 + 80 - 3 * 5) ∧ ((49 : Int) + 5 ≤ 150 + 1) ∧
    ((150 : Int) + 5 ≤ 240) := by decide
/-- … and what K4 then asserts is what the kernel computed above: forward contig a1: `1-48` | `49-100`
    (`48 = 100 − (100 − 48)`); reverse contig a2: the part at 111..150 is `41-80` (`41 = 1 + (190 − 150)`), the part at
    151..190 is `1-40` (`40 + 1 = 41`) -/
example : ka1.stop - (0 + ka1.length - 48) = 48 ∧ ka2.start + (110 + ka2.length - 150) = 41 := by decide

/-! ### (2) a small contig near a cut, sharing between `err` and `3·err` bases with each piece, moved wholly to the
    neighbour: the cores are intact, the moved contig lies outside both cores -/

private def kc1 : Fragment := { oid := 1, name := "c1".toList, start := 1, stop := 100, strand := 1 }
private def kc2 : Fragment := { oid := 2, name := "c2".toList, start := 1, stop := 20, strand := 1 }
private def kc3 : Fragment := { oid := 3, name := "c3".toList, start := 1, stop := 100, strand := 1 }
/-- scaffold `s`: c1 at 1..100, c2 at 101..120, c3 at 121..220 -/
private def kin2 : List Scaffold := [{ name := "s".toList, rows := [.frag kc1, .frag kc2, .frag kc3] }]
/-- cut at 108 | 109: c2 shares 8 bases with the first piece and 12 with the second (`err = 5`: both between 5 and 15) -/
private def kptx2 : List Scaffold :=
  [{ name := "P1".toList, rows := [kpc "s".toList 1 108 1] }, { name := "P2".toList, rows := [kpc "s".toList 109 220 (-1)] }]

example : WFInput kin2 ∧ InputNonNeg kin2 ∧ PtxDisjoint kptx2 := by refine ⟨by decide, by decide, by decide⟩

set_option synthInstance.maxSize 1024 in
/-- the resolver (guard (b): removing c2 from the first piece leaves its bait uncovered by 8 < 15 bases and improves it)
    moves c2 wholly to the second piece; nothing is cut -/
private theorem kmoved_store :
    (remapToInput kin2 kptx2 [] (some kjg) 5).toOption.map kview =
      some [(1, 108, 1, 100, [("c1".toList, 1, 100)]),
            (109, 220, 101, 220, [("c2".toList, 1, 20), ("c3".toList, 1, 100)])] := by decide +kernel

/-- the cores `[16, 93]` and `[124, 205]` are inside the spans `[1, 100]` and `[101, 220]` of the two results (intact),
    and the moved contig c2 (101..120) lies outside both cores -/
example : ((1 : Int) ≤ 1 + 3 * 5 ∧ (108 : Int) - 3 * 5 ≤ 100) ∧ ((101 : Int) ≤ 109 + 3 * 5 ∧ (220 : Int) - 3 * 5 ≤ 220) ∧
    ((108 : Int) - 3 * 5 < 101) ∧ ((120 : Int) < 109 + 3 * 5) := by decide

/-- K2 applied to this map: the conclusion for a base of the first piece's core (position 50, in c1) -/
example : ∃ b, remapToInput kin2 kptx2 [] (some kjg) 5 = .ok b ∧
    ∃ r, b.store[0]? = some r ∧ r.o.start ≤ 50 ∧ 50 ≤ r.o.stop := by
  have hv := kmoved_store
  cases hr : remapToInput kin2 kptx2 [] (some kjg) 5 with
  | error e => rw [hr] at hv; simp [Except.toOption] at hv
  | ok b =>
    refine ⟨b, rfl, ?_⟩
    obtain ⟨_, hk⟩ := remap_keeps_core kin2 kptx2 _ _ 5 b (by decide) (by decide) (by decide) (by decide) hr
    obtain ⟨r, sc, o0, h0, _, hsc, _, _, _, hpos, _⟩ :=
      hk 0 (false, { name := "P1".toList, rows := [kpc "s".toList 1 108 1] },
        { name := "s".toList, start := 1, stop := 108, strand := 1 }) (by decide +kernel)
    have hsc' : sc = { name := "s".toList, rows := [.frag kc1, .frag kc2, .frag kc3] } := by
      simpa [kin2] using hsc
    subst hsc'
    exact ⟨r, h0, hpos 50 ⟨by decide, kc1, by decide⟩ (by decide) (by decide)⟩

/-- `remap` completes on both maps (so K3 / K4 (output) are not vacuous either) -/
example : ((remap kinp kptx "SUPER_".toList (some kjg) 5).toOption.map (fun r => r.2.cuts) = some 2) ∧
    ((remap kin2 kptx2 [] (some kjg) 5).toOption.map (fun r => r.2.cuts) = some 0) := by
  constructor <;> decide +kernel

end AgpTpf.C02
