/-
  C15 over the SOURCE (T1c): `FastaIndex.check_for_index_files`, translated whole from the current /repo/src/tola/fasta/index.py
  (`Gen.Imp.FastaIndex_check_for_index_files`; the file system is an oracle: `fs_exists`, `fs_mtime`, time stamps as integers — only their order is
  used), accepts the cache exactly when BOTH index files exist and are STRICTLY newer than the FASTA file, looking at `.fai` first.
-/
import AgpTpf.Properties.C15
import AgpTpf.Gen.Imp
namespace AgpTpf.C15
open AgpTpf AgpTpf.Cache

/-- the decision of the source's `check_for_index_files`, for a file system in which `stat` succeeds -/
theorem check_for_index_files_is_source (ex : Str → Bool) (mt : Str → Int) (fa fai agp : Str) :
    Gen.Imp.FastaIndex_check_for_index_files ex (fun p => .ok (mt p)) fa fai agp
      = .ok (ex fai && decide (mt fai > mt fa) && (ex agp && decide (mt agp > mt fa))) := by
  unfold Gen.Imp.FastaIndex_check_for_index_files
  simp only [bind, Except.bind, PyRt.forIn]
  cases h1 : ex fai <;> simp
  by_cases h2 : mt fai ≤ mt fa
  · simp [h2, Int.not_lt.mpr h2]
  · have h2' : mt fa < mt fai := by omega
    simp [h2, h2']
    cases h3 : ex agp <;> simp
    by_cases h4 : mt agp ≤ mt fa
    · simp [h4, Int.not_lt.mpr h4]
    · have h4' : mt fa < mt agp := by omega
      simp [h4, h4']

/-- a missing FASTA file (its `stat` raises) fails loudly, before any cache file is looked at -/
theorem check_for_index_files_missing_fasta (ex : Str → Bool) (mt : Str → R Int) (fa fai agp : Str) (e : Err) (h : mt fa = .error e) :
    Gen.Imp.FastaIndex_check_for_index_files ex mt fa fai agp = .error e := by
  unfold Gen.Imp.FastaIndex_check_for_index_files
  simp [bind, Except.bind, h]

/-- an index file with the SAME time stamp as the FASTA file is not trusted (the strict test of the property) -/
example : Gen.Imp.FastaIndex_check_for_index_files (fun _ => true) (fun p => .ok (if p = "x.fa.agp".toList then 7 else 5))
    "x.fa".toList "x.fa.fai".toList "x.fa.agp".toList = .ok false := by rfl
example : Gen.Imp.FastaIndex_check_for_index_files (fun _ => true) (fun p => .ok (if p = "x.fa".toList then 5 else 7))
    "x.fa".toList "x.fa.fai".toList "x.fa.agp".toList = .ok true := by rfl

/-- … which is the test the protocol model applies to each cache file (`Model/Cache.lean`, `newer`): with the model's view of the two files and the
    FASTA time stamp, the source accepts exactly when the model's process would go on to LOAD -/
theorem check_for_index_files_is_model_test (fai agp : Option FileV) (m : Nat) :
    Gen.Imp.FastaIndex_check_for_index_files (fun p => if p = "fai".toList then fai.isSome else agp.isSome)
        (fun p => .ok (if p = "fasta".toList then (m : Int) else if p = "fai".toList then ((fai.map FileV.mtime).getD 0 : Nat) else ((agp.map FileV.mtime).getD 0 : Nat)))
        "fasta".toList "fai".toList "agp".toList
      = .ok (newer fai m && newer agp m) := by
  rw [check_for_index_files_is_source (mt := fun p => if p = "fasta".toList then (m : Int) else if p = "fai".toList then ((fai.map FileV.mtime).getD 0 : Nat) else ((agp.map FileV.mtime).getD 0 : Nat))]
  cases fai <;> cases agp <;> simp [newer] <;> (try decide) <;> (try omega)

end AgpTpf.C15
