/-
  C10 (T1c, phase 2 CAPSTONE) — `BuildAssembly.assemblies_with_scaffolds_fused` of the Python source (assembly/build_assembly.py) AS TRANSLATED
  (`Gen.Imp.BuildAssembly_assemblies_with_scaffolds_fused`, `Gen/Imp2.lean`) IS the model's `assembliesFused` (`Model/Remap.lean`); and
  phase 1 followed by phase 2 of the source IS the model's `remap`.

  Built on the finished groups (their theorems are used, not re-proved): `C07.scaffolds_fused_by_name_is_source` (the generator),
  `C10.chrnamer_init_is_source` / `chrnamer_add_scaffold_is_source` / `add_chr_prefix_is_source` / `name_chromosomes_is_source_of_wf` and
  `assembliesFused_is_block` (the naming block), `C20.smart_sort_refs` (the sort), `C11.make_stats_is_source_partial` (the statistics),
  `C11` `junctions_by_prefix` (`ImpJunctions.junctionsByPrefixSrc_eq`), `C01.remap_to_input_refines` (phase 1).

  How the source state stands for the model's fold state `(asms, entries, haps, fs)` (`ImpPhase2.toSrc`): `assemblies` maps the i-th key to
  the reference `i`; `heap_a[i]` is the Assembly object `(self.name, curated, ids)`; `chr_namer.haplotypes_seen` maps every text of `haps` to
  `True`; `chr_namer.scaffolds = entries`; `heap_b = fs`; no ChrGroup object exists before `name_chromosomes`.  One pass of the source's
  first loop on the state that stands for `m` gives the state that stands for `fusedStep m` — for EVERY `m` (`ImpPhase2.srcStep_toSrc`).
  `if tag := scffld.tag … elif hap := scffld.haplotype` (the translator's `some (c :: cs)` narrowing) against the model's `truthy`: the same
  three cases for every tag / haplotype (None, "", non-empty): NO difference found.
  The invariants the finished ties need are derived from the model's fold (`ImpPhase2.FusedInv`): `NamerWf` for `name_chromosomes`; the
  assembly keys pairwise different for `make_stats` (WITHOUT it `make_stats` differs: `C11Imp.lean`, keys None, "", None — a `dict` cannot
  hold that, and this theorem shows the driver never produces it).

  The one hypothesis: at most 1114047 fused scaffolds (really: rank-1 ones, `assemblies_fused_is_source_of_entries`).  It is the hypothesis
  of `C10.name_chromosomes_is_source`: beyond it `chr(ord("A") + k)` of `multi_chr_list` can raise ValueError in the source where the
  model carries on (`C10.multi_chr_list_too_many`).  Everything else — any store, any left-overs, dangling references, any `self.name`, any
  incoming `breaks` / `joins` — is covered.  `per_assembly_stats` is empty on entry (a fresh `AssemblyStats`), as in `C11Imp`.

  Theorem 2: how phase 1's result feeds phase 2 is `ImpPhase2.phase2Scaffolds` — see the comment there and the NOTE below.
  Proofs: `AgpTpf/Proofs/ImpPhase2.lean`.
-/
import AgpTpf.Proofs.ImpPhase2
-- the `example`s compare nested tuples: the default size limit of instance search is too small for their `DecidableEq`
set_option synthInstance.maxSize 100000
namespace AgpTpf.C10
open AgpTpf AgpTpf.ImpNameChr AgpTpf.ImpPhase2
open AgpTpf.ImpMissing (loSrc)
open AgpTpf.ImpStats (perToSrc)

/-! ### the input the `example`s run on: four OverlapResults of one haplotype (two autosomes — the SECOND is the longer one —, one rank-2
    scaffold, one haplotig) and one left-over scaffold without a haplotype -/

def fzF (n : Char) (b : Int) : Fragment := { name := [n], start := 1, stop := b, strand := 1 }
def fzHap : Str := "Hap1".toList
def fzRes (name : Str) (rank : Int) (rows : List Row) (tag : Option Str := none) (orig : Option Str := none) : Res :=
  { o := { bait := fzF 'p' 10, start := 1, stop := 10, rows := rows, name := name, tag := tag, haplotype := some fzHap, rank := rank,
           originalName := orig, originalTags := some ["Painted".toList] }, added := true }
def fzB : Build :=
  { namer := { autosomePrefix := "SUPER_".toList }, nextOid := 0, err := 0, joinGap := some { length := 200, gapType := ['s'] }, cuts := 2,
    store := [fzRes "S1".toList 1 [.frag (fzF 'a' 100), .frag (fzF 'c' 30)] none (some "S1".toList),
              fzRes "S2".toList 1 [.frag (fzF 'b' 300)] none (some "S2".toList),
              fzRes "X".toList 2 [.frag (fzF 'd' 40)],
              fzRes "H_1".toList 3 [.frag (fzF 'e' 5)] (some "Haplotig".toList)],
    extra := [({ name := "s9".toList, rows := [.frag (fzF 'f' 7)], rank := 3 }, none)] }
/-- the input assembly: `a b`, `c d e`, `f` — the output breaks `a|b`, `c|d`, `d|e` and joins `a|c` -/
def fzInput : List Scaffold :=
  [{ name := "s1".toList, rows := [.frag (fzF 'a' 100), .frag (fzF 'b' 300)] },
   { name := "s2".toList, rows := [.frag (fzF 'c' 30), .frag (fzF 'd' 40), .frag (fzF 'e' 5)] },
   { name := "s9".toList, rows := [.frag (fzF 'f' 7)] }]
/-- what the `example`s show of the source's result: the dictionary as `(key, curated, scaffold names)`, breaks, joins, records -/
def fzShow (r : List Scaffold × List PyRt.GData × List PyRt.AsmObj × Int × Int × List (Str × List (Str × Int)) × List (Option Str × Nat)) :=
  ((PyRt.asmDictView r.2.2.1 r.1 r.2.2.2.2.2.2).map (fun kv => (kv.1, kv.2.curated, kv.2.scaffolds.map (·.name))),
    r.2.2.2.1, r.2.2.2.2.1, r.2.2.2.2.2.1)

/-! ### 1. `assemblies_with_scaffolds_fused` -/

/-- **T1c tie.**  On a model state `b` — store `b.store`, left-over arena `b.extra.map loSrc`, default gap `b.joinGap`, `self.scaffolds` = the
    added results in store order then the left-overs (`ImpFuse.builtRefs b`, the list of `C07.scaffolds_fused_by_name_is_source`) —, with
    the namer's `autosome_prefix` that of `b`, the input junction sets `junctionsByPrefix input`, an empty `per_assembly_stats`, ANY
    `self.name` and ANY incoming `breaks` / `joins`: the source raises exactly the exception `assembliesFused input b` raises, and
    otherwise returns `(heap_b, heap_g, heap_a, breaks, joins, per_assembly_stats, assemblies)` with the model's numbers, and the
    `{key: Assembly}` dictionary it returns — read through the references — is the model's list of output assemblies, each as the object
    `Assembly(self.name, curated)` with its scaffolds in the model's order (keys in the same insertion order) -/
theorem assemblies_fused_is_source (input : List Scaffold) (b : Build) (namer : PyRt.SrcNamer) (name : Str) (b0 j0 : Int)
    (hp : namer.autosome_prefix = b.namer.autosomePrefix) (hcount : (fuseByName b).length ≤ 1114047) :
    match assembliesFused input b with
    | .error e =>
        Gen.Imp.BuildAssembly_assemblies_with_scaffolds_fused b.store (b.extra.map loSrc) b0 j0 [] (junctionsByPrefix input)
          namer name b.joinGap (ImpFuse.builtRefs b) = .error e
    | .ok (outs, stats) => ∃ heap_b heap_g heap_a assemblies,
        Gen.Imp.BuildAssembly_assemblies_with_scaffolds_fused b.store (b.extra.map loSrc) b0 j0 [] (junctionsByPrefix input)
          namer name b.joinGap (ImpFuse.builtRefs b)
          = .ok (heap_b, heap_g, heap_a, stats.breaks, stats.joins, perToSrc stats.perAssembly, assemblies) ∧
        PyRt.asmDictView heap_a heap_b assemblies
          = outs.map (fun a => (a.key, ({ name := name, curated := a.curated, scaffolds := a.scaffolds } : Assembly))) ∧
        stats.cuts = b.cuts := by
  have h := fused_tie input b namer name b0 j0 hp (Nat.le_trans (fusedSplit_entries_le b) hcount)
  cases ha : assembliesFused input b with
  | error e => rw [ha] at h; exact h
  | ok r =>
    obtain ⟨outs, stats⟩ := r
    rw [ha] at h
    exact h

/-- the same under the hypothesis that is really used: at most 1114047 entries in `chr_namer.scaffolds` (= rank-1 fused scaffolds) -/
theorem assemblies_fused_is_source_of_entries (input : List Scaffold) (b : Build) (namer : PyRt.SrcNamer) (name : Str) (b0 j0 : Int)
    (hp : namer.autosome_prefix = b.namer.autosomePrefix) (hcount : (fusedSplit b).2.1.length ≤ 1114047) :
    match assembliesFused input b with
    | .error e =>
        Gen.Imp.BuildAssembly_assemblies_with_scaffolds_fused b.store (b.extra.map loSrc) b0 j0 [] (junctionsByPrefix input)
          namer name b.joinGap (ImpFuse.builtRefs b) = .error e
    | .ok (outs, stats) => ∃ heap_b heap_g heap_a assemblies,
        Gen.Imp.BuildAssembly_assemblies_with_scaffolds_fused b.store (b.extra.map loSrc) b0 j0 [] (junctionsByPrefix input)
          namer name b.joinGap (ImpFuse.builtRefs b)
          = .ok (heap_b, heap_g, heap_a, stats.breaks, stats.joins, perToSrc stats.perAssembly, assemblies) ∧
        PyRt.asmDictView heap_a heap_b assemblies
          = outs.map (fun a => (a.key, ({ name := name, curated := a.curated, scaffolds := a.scaffolds } : Assembly))) ∧
        stats.cuts = b.cuts := by
  have h := fused_tie input b namer name b0 j0 hp hcount
  cases ha : assembliesFused input b with
  | error e => rw [ha] at h; exact h
  | ok r =>
    obtain ⟨outs, stats⟩ := r
    rw [ha] at h
    exact h

/-- the form of the task: read from the source's side — whenever the source returns, the model returns, with these outputs, curated
    flags and counts (and when the source raises, the model raises the same exception: the `match` above) -/
theorem assemblies_fused_source_ok (input : List Scaffold) (b : Build) (namer : PyRt.SrcNamer) (name : Str) (b0 j0 : Int)
    (hp : namer.autosome_prefix = b.namer.autosomePrefix) (hcount : (fuseByName b).length ≤ 1114047)
    (heap_b : List Scaffold) (heap_g : List PyRt.GData) (heap_a : List PyRt.AsmObj) (breaks joins : Int)
    (per : List (Str × List (Str × Int))) (assemblies : List (Option Str × Nat))
    (h : Gen.Imp.BuildAssembly_assemblies_with_scaffolds_fused b.store (b.extra.map loSrc) b0 j0 [] (junctionsByPrefix input)
          namer name b.joinGap (ImpFuse.builtRefs b) = .ok (heap_b, heap_g, heap_a, breaks, joins, per, assemblies)) :
    ∃ outs stats, assembliesFused input b = .ok (outs, stats) ∧
      (PyRt.asmDictView heap_a heap_b assemblies).map (fun kv => (kv.1, kv.2.curated, kv.2.scaffolds))
        = outs.map (fun a => (a.key, a.curated, a.scaffolds)) ∧
      breaks = stats.breaks ∧ joins = stats.joins ∧ per = perToSrc stats.perAssembly := by
  have ht := assemblies_fused_is_source input b namer name b0 j0 hp hcount
  cases ha : assembliesFused input b with
  | error e => rw [ha] at ht; simp only [] at ht; rw [ht] at h; cases h
  | ok r =>
    obtain ⟨outs, stats⟩ := r
    rw [ha] at ht
    obtain ⟨hb', hg', ha', as', hs, hv, -⟩ := ht
    rw [hs] at h
    simp only [Except.ok.injEq, Prod.mk.injEq] at h
    obtain ⟨rfl, rfl, rfl, rfl, rfl, rfl, rfl⟩ := h
    refine ⟨outs, stats, rfl, ?_, rfl, rfl, rfl⟩
    rw [hv, List.map_map]
    rfl

/-- the hypotheses hold of the running example -/
example : ({ autosome_prefix := "SUPER_".toList } : PyRt.SrcNamer).autosome_prefix = fzB.namer.autosomePrefix ∧
    (fuseByName fzB).length ≤ 1114047 := ⟨rfl, by decide +kernel⟩

/-- the generated driver on it (incoming counters 7 / 9 are overwritten): the longer autosome `S2` becomes `SUPER_1`, the rank-2 scaffold
    gets the prefix, the haplotig goes to the uncurated assembly "Haplotig", the left-over to the assembly `None`; the natural sort puts
    `SUPER_1` first; 3 breaks, 1 join, one record (the input junctions are all under the prefix `None`) -/
example : (Gen.Imp.BuildAssembly_assemblies_with_scaffolds_fused fzB.store (fzB.extra.map loSrc) 7 9 [] (junctionsByPrefix fzInput)
      { autosome_prefix := "SUPER_".toList } "asm".toList fzB.joinGap (ImpFuse.builtRefs fzB)).map fzShow
    = .ok ([(some fzHap, true, ["SUPER_1".toList, "SUPER_2".toList, "SUPER_X".toList]),
            (some "Haplotig".toList, false, ["H_1".toList]), (none, true, ["s9".toList])],
           3, 1, [("Primary".toList, [("manual_breaks".toList, 3), ("manual_joins".toList, 0)])]) := by
  decide +kernel

/-- … and the model on the same input, evaluated independently -/
example : (assembliesFused fzInput fzB).map (fun r =>
      (r.1.map (fun a => (a.key, a.curated, a.scaffolds.map (·.name))), r.2.cuts, r.2.breaks, r.2.joins, r.2.perAssembly))
    = .ok ([(some fzHap, true, ["SUPER_1".toList, "SUPER_2".toList, "SUPER_X".toList]),
            (some "Haplotig".toList, false, ["H_1".toList]), (none, true, ["s9".toList])],
           2, 3, 1, [(sPrimary, 3, 0)]) := by
  decide +kernel

/-- an exception: the state of `C07ImpFuse` has a rank-1 scaffold without `original_name` — ValueError out of `build_groups`, both sides -/
example : Gen.Imp.BuildAssembly_assemblies_with_scaffolds_fused C07.exB.store (C07.exB.extra.map loSrc) 0 0 [] (junctionsByPrefix fzInput)
      { autosome_prefix := [] } "asm".toList C07.exB.joinGap (ImpFuse.builtRefs C07.exB) = .error .value ∧
    (assembliesFused fzInput C07.exB).map (fun r => r.2.cuts) = .error .value := by
  decide +kernel

/-! ### 2. the whole remap -/

/- NOTE (how phase 1 feeds phase 2).  The translated phase 1 represents `BuildAssembly.scaffolds` by the flag `Res.added` on the store
   entries (`PyRt.markAdded`) and the list `added_lo` of left-over references; it does not keep the ORDER in which results were added.
   `ImpPhase2.sourceRemap` hands phase 2 the list `ImpPhase2.phase2Scaffolds store added_lo`: added results in STORE order, then the
   left-overs.  That the Python list has this order (a result is added in the pass that creates it; `add_missing_scaffolds_from_input`
   runs last) is the run-time convention of `PyRt.markAdded` — it is the glue between the two translated kernels, stated as a DEFINITION,
   not proved from the Python text, and it is the only such assumption.  With it `C07.scaffolds_fused_by_name_is_source` applies (no
   `.res` after a `.lo`: the re-binding of `gap` found there is not reachable). -/

/-- **The whole pipeline.**  For every input with distinct scaffold names, Pretext assembly, prefix, default gap, error length, the
    fuels of `C01.remap_to_input_refines` (`RemapFuel`) and of the junction iterator (one unit per fragment of the longest input
    scaffold), any `self.name` and incoming counters: `BuildAssembly.__init__` state → `remap_to_input_assembly` →
    `assemblies_with_scaffolds_fused` of the source raises exactly the exception the model's `remap` raises, and otherwise returns the
    model's cut / break / join counts, per-assembly records and — through the references — output assemblies with their curated flags -/
theorem source_remap_is_model (input ptx : List Scaffold) (prefix_ : Str) (g : Gap) (err : Int) (fuel fuelJ : Nat) (name : Str) (b0 j0 : Int)
    (hdup : C01.inputNamesDistinct input) (hfuel : C01.RemapFuel input ptx prefix_ (some g) err fuel)
    (hfj : ∀ s ∈ input, (Scaffold.fragments s).length ≤ fuelJ)
    (hcount : ∀ b, remapToInput input ptx prefix_ (some g) err = .ok b → (fuseByName b).length ≤ 1114047) :
    match remap input ptx prefix_ (some g) err with
    | .error e => sourceRemap fuel fuelJ input ptx prefix_ g err name b0 j0 = .error e
    | .ok (outs, stats) => ∃ heap_b heap_g heap_a assemblies,
        sourceRemap fuel fuelJ input ptx prefix_ g err name b0 j0
          = .ok (stats.cuts, heap_b, heap_g, heap_a, stats.breaks, stats.joins, perToSrc stats.perAssembly, assemblies) ∧
        PyRt.asmDictView heap_a heap_b assemblies
          = outs.map (fun a => (a.key, ({ name := name, curated := a.curated, scaffolds := a.scaffolds } : Assembly))) := by
  have h := remap_tie input ptx prefix_ g err fuel fuelJ name b0 j0 hdup hfuel hfj hcount
  cases ha : remap input ptx prefix_ (some g) err with
  | error e => rw [ha] at h; exact h
  | ok r =>
    obtain ⟨outs, stats⟩ := r
    rw [ha] at h
    exact h

/-- `sourceRemap` is, verbatim, the two generated functions one after the other -/
example (fuel fuelJ : Nat) (input ptx : List Scaffold) (prefix_ : Str) (g : Gap) (err : Int) (name : Str) (b0 j0 : Int) :
    sourceRemap fuel fuelJ input ptx prefix_ g err name b0 j0 =
      (Gen.Imp.BuildAssembly_remap_to_input_assembly fuel [] (C01.remapStart input prefix_ (some g) err).nextOid [] { autosome_prefix := prefix_ }
          [] [] 0 ptx input err g (C01.inputOverlaps input) >>= fun p1 =>
        Gen.Imp.BuildAssembly_assemblies_with_scaffolds_fused p1.1 p1.2.2.1 b0 j0 []
            (Gen.Imp.Assembly_fragment_junctions_by_asm_prefix fuelJ input) p1.2.2.2.2.2.1 name (some g)
            (((List.range p1.1.length).filter (fun sid => (p1.1.getD sid default).added)).map PyRt.BuiltRef.res
              ++ p1.2.2.2.1.map PyRt.BuiltRef.lo) >>= fun p2 =>
        .ok (p1.2.2.2.2.2.2.2.2, p2)) := rfl

/-- the hypotheses are met by the end-to-end example of `C01ImpRemap` (contig `a` cut at 60 | 61, contig `b` left over) -/
example : (∀ s ∈ C01.rmInput, (Scaffold.fragments s).length ≤ 2) ∧
    (∀ b, remapToInput C01.rmInput C01.rmPtx C01.rmPrefix (some C01.rmG200) 3 = .ok b → (fuseByName b).length ≤ 1114047) := by
  refine ⟨by decide, ?_⟩
  intro b hb
  have h : (remapToInput C01.rmInput C01.rmPtx C01.rmPrefix (some C01.rmG200) 3).map (fun b => (fuseByName b).length) = .ok 3 := by
    decide +kernel
  rw [hb] at h
  simp only [Except.map, Except.ok.injEq] at h
  omega

/-- the source's whole remap on it: one cut, one break (`a | gap | b` is gone), one join (`a:61-100 | gap | c`), one record; the primary
    assembly holds `SUPER_1` (three rows: it is the longer one), `SUPER_2` and the left-over `s1` -/
example : (sourceRemap 5 2 C01.rmInput C01.rmPtx C01.rmPrefix C01.rmG200 3 "asm".toList 0 0).map (fun r => (r.1, fzShow r.2))
    = .ok (1, [(none, true, ["SUPER_1".toList, "SUPER_2".toList, "s1".toList])], 1, 1,
           [("Primary".toList, [("manual_breaks".toList, 1), ("manual_joins".toList, 1)])]) := by
  decide +kernel

/-- … and the model -/
example : (remap C01.rmInput C01.rmPtx C01.rmPrefix (some C01.rmG200) 3).map (fun r =>
      (r.2.cuts, r.1.map (fun a => (a.key, a.curated, a.scaffolds.map (·.name))), r.2.breaks, r.2.joins, r.2.perAssembly))
    = .ok (1, [(none, true, ["SUPER_1".toList, "SUPER_2".toList, "s1".toList])], 1, 1, [(sPrimary, 1, 1)]) := by
  decide +kernel

end AgpTpf.C10
