/- C17 — statements under construction -/
import AgpTpf.Model.Cache
import AgpTpf.Model.Outputs
import AgpTpf.Model.Remap
namespace AgpTpf.C17
theorem placeholder : True := trivial
end AgpTpf.C17
