/-
  C17 — Outputs are a deterministic function of the input files.

  The model (`remap`, `assembliesFused`, …) is a pure function of the parsed inputs, so "same inputs, same outputs" holds
  of it by construction.  The one place where the real code consults an iteration order that is NOT a function of the
  input files is `for tag in fragment_tags` in `ScaffoldNamer.make_scaffold_name`: `fragment_tags` is a Python `set` of
  `str`, whose iteration order depends on PYTHONHASHSEED.  The model fixes one order (`Scaffold.fragmentTags`); the
  theorems here show that this choice is immaterial: `makeScaffoldName` returns the same value (the same namer, or the
  same error) for every ordering of the tag set, and `labelScaffold` reads the scaffold tag set only through membership.

  FINDING (false without the side condition, reproduced on the real code): with an EMPTY tag in the set the result
  depends on the order.  `"a\tb\t\tHap1"`-style AGP lines (two consecutive tabs; `line.split("\t")` keeps the empty field)
  give the tag set {"", "Hap1"}: order ["", "Hap1"] succeeds (haplotype "Hap1"), order ["Hap1", ""] raises TaggingError,
  because `if haplotype:` treats the haplotype "" obtained from the empty tag as "not set".  See `empty_tag_order_dependent`.
-/
import AgpTpf.Model.Cache
import AgpTpf.Model.Outputs
import AgpTpf.Model.Remap
import AgpTpf.Proofs.C17
import AgpTpf.Proofs.C09
namespace AgpTpf.C17
open AgpTpf

/-- **Hash-seed independence of `make_scaffold_name`.**  For a namer whose haplotype dictionary holds no empty spelling
    (`NamerOk`, an invariant of every reachable namer: `namerOk_init`, `namerOk_makeScaffoldName`, `namerOk_labelScaffold`)
    and a tag collection without the empty tag, any reordering of the tags gives the *same* result: the same error, or
    `.ok` of the same namer — all fields, including `haplotypeLc` with its insertion order (a second haplotype-looking tag
    or a second chromosome-name tag is an error in either order).  `Nodup` of the tags is not needed. -/
theorem make_scaffold_name_perm (n : Namer) (scName : Str) (rows : List Row) (tags₁ tags₂ : List Str)
    (hp : tags₁.Perm tags₂) (hne : [] ∉ tags₁) (hn : NamerOk n) :
    makeScaffoldName n scName rows tags₁ = makeScaffoldName n scName rows tags₂ := by
  rw [makeScaffoldName_eq, makeScaffoldName_eq, foldlM_scanTag_perm (n, {}) tags₁ tags₂ hp hne hn]

/-- The form asked for: both runs fail with the same error, or both succeed with namers agreeing on every field the
    rest of the pipeline reads. -/
theorem make_scaffold_name_perm_fields (n : Namer) (scName : Str) (rows : List Row) (tags₁ tags₂ : List Str)
    (hp : tags₁.Perm tags₂) (hne : [] ∉ tags₁) (hn : NamerOk n) :
    (∃ e, makeScaffoldName n scName rows tags₁ = .error e ∧ makeScaffoldName n scName rows tags₂ = .error e) ∨
    (∃ n₁ n₂, makeScaffoldName n scName rows tags₁ = .ok n₁ ∧ makeScaffoldName n scName rows tags₂ = .ok n₂ ∧
      n₁.currentScaffoldName = n₂.currentScaffoldName ∧ n₁.currentRank = n₂.currentRank ∧
      n₁.currentHaplotype = n₂.currentHaplotype ∧ n₁.targetTags = n₂.targetTags ∧
      n₁.primaryHaplotype = n₂.primaryHaplotype ∧ n₁.unlocN = n₂.unlocN ∧ n₁.unlocScaffolds = n₂.unlocScaffolds ∧
      n₁.haplotigN = n₂.haplotigN ∧ n₁.haplotigScaffolds = n₂.haplotigScaffolds ∧
      n₁.autosomePrefix = n₂.autosomePrefix ∧ n₁.haplotypeLc = n₂.haplotypeLc) := by
  rw [← make_scaffold_name_perm n scName rows tags₁ tags₂ hp hne hn]
  cases h : makeScaffoldName n scName rows tags₁ with
  | error e => exact .inl ⟨e, rfl, rfl⟩
  | ok n₁ => exact .inr ⟨n₁, n₁, rfl, rfl, rfl, rfl, rfl, rfl, rfl, rfl, rfl, rfl, rfl, rfl, rfl⟩

/-- The underlying fact: two loop bodies commute, as `Except` values. -/
theorem scan_tag_commutes (st : Namer × TagScan) (a b : Str) (ha : a ≠ []) (hb : b ≠ []) (hs : NamerOk st.1) :
    (scanTag st a >>= fun st' => scanTag st' b) = (scanTag st b >>= fun st' => scanTag st' a) :=
  scanTag_comm st a b ha hb hs

/-! ### the invariant is met by every reachable namer -/

theorem namerOk_init (prefix_ : Str) : NamerOk { autosomePrefix := prefix_ } := by
  intro kv h; cases h

theorem namerOk_makeScaffoldName (n n' : Namer) (scName : Str) (rows : List Row) (tags : List Str)
    (hne : [] ∉ tags) (hn : NamerOk n) (h : makeScaffoldName n scName rows tags = .ok n') : NamerOk n' :=
  makeScaffoldName_ok n n' scName rows tags hne hn h

theorem labelScaffold_haplotypeLc (n n' : Namer) (o o' : OverlapResult) (sid : Nat) (frag : Fragment)
    (scTags : List Str) (orig : Str) (h : labelScaffold n o sid frag scTags orig = .ok (n', o')) :
    n'.haplotypeLc = n.haplotypeLc := by
  rw [C09.labelScaffold_eq] at h
  repeat' split at h
  all_goals first | (cases h; rfl) | cases h

theorem namerOk_labelScaffold (n n' : Namer) (o o' : OverlapResult) (sid : Nat) (frag : Fragment)
    (scTags : List Str) (orig : Str) (hn : NamerOk n)
    (h : labelScaffold n o sid frag scTags orig = .ok (n', o')) : NamerOk n' := by
  unfold NamerOk
  rw [labelScaffold_haplotypeLc n n' o o' sid frag scTags orig h]
  exact hn

/-! ### `label_scaffold` reads the scaffold tag set only through membership -/

/-- Two orderings of the Pretext scaffold's tag set give the same namer and the same labelled result, except for the
    stored `originalTags` (the set itself). -/
theorem label_scaffold_tag_order (n : Namer) (o : OverlapResult) (sid : Nat) (frag : Fragment) (t₁ t₂ : List Str)
    (orig : Str) (hm : ∀ x, x ∈ t₁ ↔ x ∈ t₂) :
    labelScaffold n o sid frag t₂ orig =
      (labelScaffold n o sid frag t₁ orig).map (fun p => (p.1, { p.2 with originalTags := some t₂ })) := by
  have h1 : t₁.contains sTarget = t₂.contains sTarget := by
    rw [Bool.eq_iff_iff]; simp [hm]
  have h2 : t₁.contains sPainted = t₂.contains sPainted := by
    rw [Bool.eq_iff_iff]; simp [hm]
  rw [C09.labelScaffold_eq, C09.labelScaffold_eq]
  simp only [C09.preTag, C09.labelled, h1, h2]
  repeat' split
  all_goals rfl

/-! ### non-vacuity and the counterexamples -/

def hap1 : Str := ['H','a','p','1']
def hap2 : Str := ['H','a','p','2']
def ctg : Row := .frag { name := ['c','t','g','1'], start := 1, stop := 100, strand := 1 }
def n0 : Namer := { autosomePrefix := ['S','U','P','E','R','_'] }

def isOk {α} : R α → Bool
  | .ok _ => true
  | .error _ => false

/-- hypotheses satisfiable, with a run that succeeds and changes the namer non-trivially -/
example : [hap1, sPainted, sTarget, ['X']].Perm [['X'], sTarget, hap1, sPainted] ∧
    [] ∉ [hap1, sPainted, sTarget, ['X']] ∧ NamerOk n0 ∧
    (makeScaffoldName n0 ['S','c','1'] [ctg] [hap1, sPainted, sTarget, ['X']]).toOption.map
        (fun n => (n.currentScaffoldName, n.currentRank, n.currentHaplotype, n.targetTags)) =
      some (some ['X'], 2, some hap1, true) ∧
    (makeScaffoldName n0 ['S','c','1'] [ctg] [hap1, sPainted, sTarget, ['X']]).toOption.map (·.haplotypeLc) =
      some [(['h','a','p','1'], hap1)] := by
  refine ⟨?_, by decide, namerOk_init _, by decide, by decide⟩
  decide

/-- … and one where both orders fail (two haplotype-looking tags) -/
example : isOk (makeScaffoldName n0 [] [ctg] [hap1, hap2]) = false ∧
    isOk (makeScaffoldName n0 [] [ctg] [hap2, hap1]) = false := by decide

/-- COUNTEREXAMPLE without `[] ∉ tags`: the tag set {"", "Hap1"} succeeds in one order and raises TaggingError in the
    other (confirmed on the real `ScaffoldNamer.make_scaffold_name`). -/
theorem empty_tag_order_dependent :
    isOk (makeScaffoldName n0 [] [ctg] [[], hap1]) = true ∧
    isOk (makeScaffoldName n0 [] [ctg] [hap1, []]) = false := by decide

/-- COUNTEREXAMPLE without `NamerOk n` (not reachable in the real code, shows the hypothesis is used): a dictionary
    that spells "hap1" as "" makes the order of {"Hap1", "Hap2"} matter. -/
theorem bad_namer_order_dependent :
    isOk (makeScaffoldName { n0 with haplotypeLc := [(['h','a','p','1'], [])] } [] [ctg] [hap1, hap2]) = true ∧
    isOk (makeScaffoldName { n0 with haplotypeLc := [(['h','a','p','1'], [])] } [] [ctg] [hap2, hap1]) = false := by
  decide

end AgpTpf.C17
