/-
  C11 — Curation statistics count the real cuts, breaks and joins.

  An adjacency is the UNORDERED pair of the two contig ends that face each other across a junction; a contig end is
  `End = (name, coordinate, isTail)` (`Proofs/C11Order.lean`: `leftFacing`, `rightFacing`, `facingEnds`, `SameAdj`,
  `encodeAdj`).

  PROVED, all at full strength (no `_partial` theorem in this file):
    0  `str_lt_*`, `end_le_*`            `strLt` is a strict total order, `endLe` a total order on (name, coordinate)
    1  `junction_tuple_reverse(_any)`    `junctionTuple b.reverse a.reverse = junctionTuple a b`, for ALL strand values
    2  `junction_tuple_spec`             for strands ±1 the tuple is `encodeAdj (facingEnds a b)`
       `junction_tuple_eq_iff`           same tuple ⇔ same unordered pair of facing ends (BOTH directions)
    3  `junction_set_reverse`            a scaffold and its reverse have the same junction set (membership, `Perm`,
       `junction_set_reverse_ok/_error`  both duplicate-free); without strand hypotheses: same set or same error
    4  `strand0_rejected`, `strand_rejected`   a strand ∉ {1,−1} next to another fragment ⇒ `ValueError`
    5  `make_stats_counts`               breaks = |sDiff inputSet outputSet|, joins = |sDiff outputSet inputSet|, the sets
                                         being duplicate-free with membership = "tuple of two consecutive fragments of an
                                         input scaffold / of a scaffold of some output assembly"
       `make_stats_breaks_joins`         the same as cardinalities of the two set differences
       `make_stats_counts_adjacencies`   the same in terms of unordered contig-end adjacencies (the property as worded)
       `make_stats_reversal_invariant`   reversing (and reordering) whole scaffolds in the input and/or the outputs keeps
                                         `make_stats` succeeding and changes neither count
    6  `cut_fragments_counter`, `cut_remaining_counter`   the cut counter grows by (pieces − 1) per cut contig
  NOT covered (not in this task's goal list): the end-to-end equation cuts = #output fragments − #input contigs over
  the whole of `remap` (needs C01 end to end), and the haplotig-removal count.
  Only property theorems + non-vacuity examples live here; helper lemmas are in `Proofs/C11*.lean`.
-/
import AgpTpf.Proofs.C11Extra
import AgpTpf.Proofs.C11Cuts
namespace AgpTpf.C11
open AgpTpf

/-! ## test values for the non-vacuity examples -/

/-- contig `a`, bases 1..10 -/
def fA (strand : Int) : Fragment := { name := ['a'], start := 1, stop := 10, strand := strand }
/-- contig `b`, a 1-bp piece: head and tail coordinates coincide -/
def fB (strand : Int) : Fragment := { name := ['b'], start := 5, stop := 5, strand := strand }
/-- contig `a`, bases 11..20 (a cut piece of the same contig) -/
def fA2 (strand : Int) : Fragment := { name := ['a'], start := 11, stop := 20, strand := strand }
def gap100 : Row := .gap { length := 100, gapType := ['s'] }

/-! ## 0. `strLt` / `endLe` order contig ends totally (what makes `sorted(...)` a canonical choice) -/

theorem str_lt_irrefl (a : Str) : strLt a a = false := strLt_irrefl a
theorem str_lt_asymm (a b : Str) (h : strLt a b = true) : strLt b a = false := strLt_asymm a b h
theorem str_lt_total (a b : Str) (h : a ≠ b) : strLt a b = true ∨ strLt b a = true := strLt_total a b h
theorem str_lt_trans (a b c : Str) (h1 : strLt a b = true) (h2 : strLt b c = true) : strLt a c = true :=
  strLt_trans a b c h1 h2
theorem end_le_refl (x : Str × Int) : endLe x x = true := endLe_refl x
theorem end_le_total (x y : Str × Int) : endLe x y = true ∨ endLe y x = true := endLe_total x y
theorem end_le_antisymm (x y : Str × Int) (h1 : endLe x y = true) (h2 : endLe y x = true) : x = y :=
  endLe_antisymm x y h1 h2
theorem end_le_trans (x y z : Str × Int) (h1 : endLe x y = true) (h2 : endLe y z = true) : endLe x z = true :=
  endLe_trans x y z h1 h2

example : strLt ['a', 'b'] ['a', 'c'] = true ∧ strLt ['a'] ['a', 'c'] = true := by decide
example : endLe (['a'], 7) (['a'], 7) = true ∧ endLe (['a'], 9) (['b'], 2) = true ∧
    endLe (['b'], 2) (['a'], 9) = false := by decide

/-! ## 1. reversing a scaffold maps the junction `a b` to `b.reverse a.reverse`: same tuple -/

theorem junction_tuple_reverse (a b : Fragment) (_ha : a.strand = 1 ∨ a.strand = -1)
    (_hb : b.strand = 1 ∨ b.strand = -1) : junctionTuple b.reverse a.reverse = junctionTuple a b :=
  junctionTuple_reverse_any a b

/-- … and in fact for every strand value (then both sides are the same `ValueError`). -/
theorem junction_tuple_reverse_any (a b : Fragment) : junctionTuple b.reverse a.reverse = junctionTuple a b :=
  junctionTuple_reverse_any a b

-- the four strand combinations, on concrete fragments (with the 1-bp fragment `fB`)
example : junctionTuple (fA 1) (fB 1) = .ok (.s ['a'], .i 10, .s ['b'], .i 5) ∧
    junctionTuple (fB 1).reverse (fA 1).reverse = .ok (.s ['a'], .i 10, .s ['b'], .i 5) := by decide
example : junctionTuple (fA 1) (fB (-1)) = .ok (.s ['a'], .i 10, .i 5, .s ['b']) ∧
    junctionTuple (fB (-1)).reverse (fA 1).reverse = .ok (.s ['a'], .i 10, .i 5, .s ['b']) := by decide
example : junctionTuple (fA (-1)) (fB 1) = .ok (.i 5, .s ['b'], .s ['a'], .i 1) ∧
    junctionTuple (fB 1).reverse (fA (-1)).reverse = .ok (.i 5, .s ['b'], .s ['a'], .i 1) := by decide
example : junctionTuple (fA (-1)) (fB (-1)) = .ok (.s ['b'], .i 5, .s ['a'], .i 1) ∧
    junctionTuple (fB (-1)).reverse (fA (-1)).reverse = .ok (.s ['b'], .i 5, .s ['a'], .i 1) := by decide
-- the 1-bp fragment: head and tail have the same coordinate, yet the two orientations give different tuples
example : junctionTuple (fA 1) (fB 1) ≠ junctionTuple (fA 1) (fB (-1)) ∧
    junctionTuple (fA (-1)) (fB 1) ≠ junctionTuple (fA (-1)) (fB (-1)) ∧
    junctionTuple (fB 1) (fA 1) ≠ junctionTuple (fB (-1)) (fA 1) ∧
    junctionTuple (fB 1) (fA (-1)) ≠ junctionTuple (fB (-1)) (fA (-1)) := by decide

/-! ## 2. the junction tuple is an injective encoding of the adjacency -/

/-- `junction_tuple` succeeds exactly for strands ±1 … -/
theorem junction_tuple_ok_iff (a b : Fragment) :
    (∃ t, junctionTuple a b = .ok t) ↔ ((a.strand = 1 ∨ a.strand = -1) ∧ (b.strand = 1 ∨ b.strand = -1)) :=
  junctionTuple_ok_iff a b

/-- … and is then the encoding `encodeAdj` (a function of the pair of facing ends, symmetric in the two ends). -/
theorem junction_tuple_spec (a b : Fragment) (ha : a.strand = 1 ∨ a.strand = -1) (hb : b.strand = 1 ∨ b.strand = -1) :
    junctionTuple a b = .ok (encodeAdj (facingEnds a b)) := junctionTuple_eq_encodeAdj a b ha hb

theorem encode_adj_eq_iff (p q : End × End) : encodeAdj p = encodeAdj q ↔ SameAdj p q :=
  ⟨encodeAdj_inj, encodeAdj_congr⟩

/-- FULL STRENGTH, both directions: two junctions get the same tuple iff they are the same unordered pair of facing
    contig ends.  (Success of `junctionTuple` already forces all four strands to be ±1.) -/
theorem junction_tuple_eq_iff (a b c d : Fragment) (t t' : Junction)
    (h : junctionTuple a b = .ok t) (h' : junctionTuple c d = .ok t') :
    t = t' ↔ SameAdj (facingEnds a b) (facingEnds c d) := by
  obtain ⟨ha, hb⟩ := (junctionTuple_ok_iff a b).mp ⟨t, h⟩
  obtain ⟨hc, hd⟩ := (junctionTuple_ok_iff c d).mp ⟨t', h'⟩
  rw [junctionTuple_eq_encodeAdj a b ha hb] at h
  rw [junctionTuple_eq_encodeAdj c d hc hd] at h'
  rw [← Except.ok.inj h, ← Except.ok.inj h']
  exact encode_adj_eq_iff _ _

example : junctionTuple (fA 1) (fB (-1)) = .ok (.s ['a'], .i 10, .i 5, .s ['b']) ∧
    junctionTuple (fB 1) (fA (-1)) = .ok (.s ['a'], .i 10, .i 5, .s ['b']) ∧
    SameAdj (facingEnds (fA 1) (fB (-1))) (facingEnds (fB 1) (fA (-1))) := by decide
example : facingEnds (fA 1) (fB (-1)) = ((['a'], 10, true), (['b'], 5, true)) ∧
    facingEnds (fA 1) (fB 1) = ((['a'], 10, true), (['b'], 5, false)) ∧
    ¬ SameAdj (facingEnds (fA 1) (fB (-1))) (facingEnds (fA 1) (fB 1)) := by decide

/-! ## 3. a scaffold and its reverse have the same junction set -/

/-- as the task states it: all strands ±1 ⇒ both succeed, with the same elements (and so the same size) -/
theorem junction_set_reverse (s : Scaffold) (h : ∀ f ∈ s.fragments, f.strand = 1 ∨ f.strand = -1) :
    ∃ js js', s.junctionSet = .ok js ∧ s.reverse.junctionSet = .ok js' ∧
      (∀ j, j ∈ js' ↔ j ∈ js) ∧ js.Nodup ∧ js'.Nodup ∧ js'.Perm js := by
  have hok : ∃ js0, junctionsOfFrags s.fragments = .ok js0 := by
    apply (jf_ok_iff _).mpr
    intro pre a b post e
    exact ⟨h a (by rw [e]; simp), h b (by rw [e]; simp)⟩
  obtain ⟨js0, hjs0⟩ := hok
  have hS : s.junctionSet = .ok (js0.foldl sAdd []) := (junctionSet_ok_iff _ _).mpr ⟨js0, hjs0, rfl⟩
  obtain ⟨S', hS', hperm, hmem⟩ := junctionSet_reverse_ok s _ hS
  exact ⟨_, S', hS, hS', hmem, junctionSet_nodup _ _ hS, junctionSet_nodup _ _ hS', hperm⟩

/-- without any strand hypothesis: success is preserved with the same set … -/
theorem junction_set_reverse_ok (s : Scaffold) (js : List Junction) (h : s.junctionSet = .ok js) :
    ∃ js', s.reverse.junctionSet = .ok js' ∧ js'.Perm js ∧ ∀ j, j ∈ js' ↔ j ∈ js :=
  junctionSet_reverse_ok s js h

/-- … and so is failure. -/
theorem junction_set_reverse_error (s : Scaffold) (e : Err) (h : s.junctionSet = .error e) :
    s.reverse.junctionSet = .error e := junctionSet_reverse_error s e h

/-- what the elements are: the tuples of the consecutive fragment pairs (gaps skipped) -/
theorem mem_junction_set (s : Scaffold) (js : List Junction) (h : s.junctionSet = .ok js) (j : Junction) :
    j ∈ js ↔ ∃ pre a b post, s.fragments = pre ++ a :: b :: post ∧ junctionTuple a b = .ok j :=
  mem_junctionSet s js h j

def scEx : Scaffold :=
  { name := ['s'], rows := [.frag (fA 1), gap100, .frag (fB (-1)), gap100, .frag (fA2 (-1)), .frag (fB 1)] }

example : (∀ f ∈ scEx.fragments, f.strand = 1 ∨ f.strand = -1) := by decide
example : scEx.junctionSet = .ok
      [(.s ['a'], .i 10, .i 5, .s ['b']), (.s ['a'], .i 20, .s ['b'], .i 5), (.i 5, .s ['b'], .s ['a'], .i 11)] ∧
    scEx.reverse.junctionSet = .ok
      [(.i 5, .s ['b'], .s ['a'], .i 11), (.s ['a'], .i 20, .s ['b'], .i 5), (.s ['a'], .i 10, .i 5, .s ['b'])] := by
  decide

/-! ## 4. strand 0 (or any strand other than ±1) next to another fragment is rejected -/

theorem strand_rejected (s : Scaffold) (pre post : List Fragment) (a b : Fragment)
    (hs : s.fragments = pre ++ a :: b :: post)
    (h0 : ¬ (a.strand = 1 ∨ a.strand = -1) ∨ ¬ (b.strand = 1 ∨ b.strand = -1)) :
    s.junctionSet = .error .value := by
  cases h : s.junctionSet with
  | error e => rw [junctionSet_error s e h]
  | ok S =>
    have := junctionSet_ok_strands s S h pre a b post hs
    rcases h0 with h0 | h0
    · exact absurd this.1 h0
    · exact absurd this.2 h0

theorem strand0_rejected (s : Scaffold) (pre post : List Fragment) (a b : Fragment)
    (hs : s.fragments = pre ++ a :: b :: post) (h0 : a.strand = 0 ∨ b.strand = 0) :
    s.junctionSet = .error .value := by
  apply strand_rejected s pre post a b hs
  rcases h0 with h0 | h0
  · left; omega
  · right; omega

example : ({ name := ['s'], rows := [.frag (fA 1), gap100, .frag (fB 0), .frag (fA2 1)] } : Scaffold).fragments
      = [fA 1] ++ fB 0 :: fA2 1 :: [] ∧
    ({ name := ['s'], rows := [.frag (fA 1), gap100, .frag (fB 0), .frag (fA2 1)] } : Scaffold).junctionSet
      = .error .value := by decide
/-- (a lone strand-0 fragment has no junction and is not rejected — as in the Python) -/
example : ({ name := ['s'], rows := [.frag (fB 0)] } : Scaffold).junctionSet = .ok [] := by decide

/-! ## 5. `make_stats`: breaks = |input \ output|, joins = |output \ input| -/

/-- The statistics as computed: `inputSet` / `outputSet` are duplicate-free lists whose members are exactly the
    junction tuples of consecutive fragment pairs of the input scaffolds / of the scaffolds of all output
    assemblies; `cuts` is passed through. -/
theorem make_stats_counts (input : List Scaffold) (outs : List OutAsm) (cuts : Int) (st : Stats)
    (h : makeStats input outs cuts = .ok st) :
    ∃ inputSet outputSet : List Junction,
      inputSet.Nodup ∧ outputSet.Nodup ∧
      (∀ j, j ∈ inputSet ↔ JunctionIn input j) ∧
      (∀ j, j ∈ outputSet ↔ JunctionInOuts outs j) ∧
      st.cuts = cuts ∧
      st.breaks = ((sDiff inputSet outputSet).length : Int) ∧
      st.joins = ((sDiff outputSet inputSet).length : Int) := by
  obtain ⟨inSets, outSets, h1, h2, hc, hb, hj⟩ := makeStats_ok input outs cuts st h
  obtain ⟨-, hin⟩ := junctionsByPrefix_spec input inSets h1
  obtain ⟨-, hout⟩ := outSets_spec outs outSets h2
  refine ⟨unionOf inSets, unionOf outSets, unionOf_nodup _, unionOf_nodup _, ?_, ?_, hc, hb, hj⟩
  · intro j; rw [mem_unionOf, hin]
  · intro j; rw [mem_unionOf, hout]

/-- `sDiff` is set difference on duplicate-free lists -/
theorem s_diff_spec {α : Type} [DecidableEq α] (s t : List α) (hs : s.Nodup) :
    (sDiff s t).Nodup ∧ ∀ x, x ∈ sDiff s t ↔ x ∈ s ∧ x ∉ t :=
  ⟨nodup_sDiff s t hs, mem_sDiff s t⟩
theorem s_add_spec {α : Type} [DecidableEq α] (s : List α) (x : α) (hs : s.Nodup) :
    (sAdd s x).Nodup ∧ ∀ y, y ∈ sAdd s x ↔ y ∈ s ∨ y = x :=
  ⟨nodup_sAdd s x hs, mem_sAdd s x⟩
theorem s_union_spec {α : Type} [DecidableEq α] (s t : List α) (hs : s.Nodup) :
    (sUnion s t).Nodup ∧ ∀ y, y ∈ sUnion s t ↔ y ∈ s ∨ y ∈ t :=
  ⟨nodup_sUnion s t hs, mem_sUnion s t⟩

/-- set reading: `breaks` is the cardinality of {junction tuples in the input, in no output assembly},
    `joins` of {junction tuples in some output assembly, not in the input}. -/
theorem make_stats_breaks_joins (input : List Scaffold) (outs : List OutAsm) (cuts : Int) (st : Stats)
    (h : makeStats input outs cuts = .ok st) :
    ∃ breaks joins : List Junction,
      breaks.Nodup ∧ joins.Nodup ∧
      (∀ j, j ∈ breaks ↔ JunctionIn input j ∧ ¬ JunctionInOuts outs j) ∧
      (∀ j, j ∈ joins ↔ JunctionInOuts outs j ∧ ¬ JunctionIn input j) ∧
      st.breaks = (breaks.length : Int) ∧ st.joins = (joins.length : Int) ∧ st.cuts = cuts := by
  obtain ⟨I, O, hI, hO, mI, mO, hc, hb, hj⟩ := make_stats_counts input outs cuts st h
  refine ⟨sDiff I O, sDiff O I, nodup_sDiff _ _ hI, nodup_sDiff _ _ hO, ?_, ?_, hb, hj, hc⟩
  · intro j; rw [mem_sDiff, mI, mO]
  · intro j; rw [mem_sDiff, mI, mO]

/-- the unordered contig-end pair `p` is an adjacency in some output assembly -/
def AdjacencyInOuts (outs : List OutAsm) (p : End × End) : Prop := ∃ a ∈ outs, AdjacencyIn a.scaffolds p

/-- ADJACENCY reading (the property as stated): there are `breaks` pairwise different unordered adjacencies that
    are in the input and in no output assembly, and every such adjacency is one of them; likewise `joins`. -/
theorem make_stats_counts_adjacencies (input : List Scaffold) (outs : List OutAsm) (cuts : Int) (st : Stats)
    (h : makeStats input outs cuts = .ok st) :
    ∃ broken joined : List (End × End),
      st.breaks = (broken.length : Int) ∧ st.joins = (joined.length : Int) ∧
      broken.Pairwise (fun p q => ¬ SameAdj p q) ∧ joined.Pairwise (fun p q => ¬ SameAdj p q) ∧
      (∀ p, (∃ q ∈ broken, SameAdj q p) ↔ AdjacencyIn input p ∧ ¬ AdjacencyInOuts outs p) ∧
      (∀ p, (∃ q ∈ joined, SameAdj q p) ↔ AdjacencyInOuts outs p ∧ ¬ AdjacencyIn input p) := by
  obtain ⟨inSets, outSets, h1, h2, -, -, -⟩ := makeStats_ok input outs cuts st h
  obtain ⟨sIn, -⟩ := junctionsByPrefix_spec input inSets h1
  obtain ⟨sOut, -⟩ := outSets_spec outs outSets h2
  obtain ⟨B, J, hB, hJ, mB, mJ, eb, ej, -⟩ := make_stats_breaks_joins input outs cuts st h
  have hI : ∀ p, JunctionIn input (encodeAdj p) ↔ AdjacencyIn input p := junctionIn_encode_iff input sIn
  have hO : ∀ p, JunctionInOuts outs (encodeAdj p) ↔ AdjacencyInOuts outs p := by
    intro p
    unfold JunctionInOuts AdjacencyInOuts
    constructor
    · rintro ⟨a, ha, hj⟩; exact ⟨a, ha, (junctionIn_encode_iff _ (sOut a ha) p).mp hj⟩
    · rintro ⟨a, ha, hj⟩; exact ⟨a, ha, (junctionIn_encode_iff _ (sOut a ha) p).mpr hj⟩
  have preI : ∀ j, JunctionIn input j → ∃ p, encodeAdj p = j := junctionIn_encoded input sIn
  have preO : ∀ j, JunctionInOuts outs j → ∃ p, encodeAdj p = j := by
    rintro j ⟨a, ha, hj⟩; exact junctionIn_encoded _ (sOut a ha) j hj
  obtain ⟨broken, lb, pb, mb⟩ := count_adjacencies _ _ _ _ hI hO preI B hB mB
  obtain ⟨joined, lj, pj, mj⟩ := count_adjacencies _ _ _ _ hO hI preO J hJ mJ
  exact ⟨broken, joined, by rw [eb, lb], by rw [ej, lj], pb, pj, mb, mj⟩

/-- Reversing whole scaffolds (any of them, in the input and/or in any output assembly; also reordering them)
    keeps `make_stats` succeeding and changes neither count. -/
theorem make_stats_reversal_invariant (input input' : List Scaffold) (outs outs' : List OutAsm) (cuts : Int)
    (st : Stats) (h : makeStats input outs cuts = .ok st)
    (hin : RevEquiv input input')
    (hout : (∀ a ∈ outs, ∃ a' ∈ outs', RevEquiv a.scaffolds a'.scaffolds) ∧
            (∀ a' ∈ outs', ∃ a ∈ outs, RevEquiv a.scaffolds a'.scaffolds)) :
    ∃ st', makeStats input' outs' cuts = .ok st' ∧
      st'.breaks = st.breaks ∧ st'.joins = st.joins ∧ st'.cuts = st.cuts := by
  obtain ⟨okI, okO⟩ := (makeStats_ok_iff input outs cuts).mp ⟨st, h⟩
  have hex : ∃ st', makeStats input' outs' cuts = .ok st' := by
    apply (makeStats_ok_iff input' outs' cuts).mpr
    constructor
    · intro sc' hsc'
      obtain ⟨sc, hsc, hr⟩ := hin.2 sc' hsc'
      exact junctionSet_ok_revRel sc sc' hr (okI sc hsc)
    · intro a' ha' sc' hsc'
      obtain ⟨a, ha, hr⟩ := hout.2 a' ha'
      obtain ⟨sc, hsc, hr'⟩ := hr.2 sc' hsc'
      exact junctionSet_ok_revRel sc sc' hr' (okO a ha sc hsc)
  obtain ⟨st', h'⟩ := hex
  obtain ⟨B, J, hB, hJ, mB, mJ, eb, ej, ec⟩ := make_stats_breaks_joins input outs cuts st h
  obtain ⟨B', J', hB', hJ', mB', mJ', eb', ej', ec'⟩ := make_stats_breaks_joins input' outs' cuts st' h'
  have eI : ∀ j, JunctionIn input' j ↔ JunctionIn input j := junctionIn_revEquiv input input' hin
  have eO : ∀ j, JunctionInOuts outs' j ↔ JunctionInOuts outs j := by
    intro j
    unfold JunctionInOuts
    constructor
    · rintro ⟨a', ha', hj⟩
      obtain ⟨a, ha, hr⟩ := hout.2 a' ha'
      exact ⟨a, ha, (junctionIn_revEquiv _ _ hr j).mp hj⟩
    · rintro ⟨a, ha, hj⟩
      obtain ⟨a', ha', hr⟩ := hout.1 a ha
      exact ⟨a', ha', (junctionIn_revEquiv _ _ hr j).mpr hj⟩
  have pB : B'.Perm B := (List.perm_ext_iff_of_nodup hB' hB).mpr (by intro j; rw [mB', mB, eI, eO])
  have pJ : J'.Perm J := (List.perm_ext_iff_of_nodup hJ' hJ).mpr (by intro j; rw [mJ', mJ, eI, eO])
  exact ⟨st', h', by rw [eb', eb, pB.length_eq], by rw [ej', ej, pJ.length_eq], by rw [ec', ec]⟩

/-! ### a worked curation: input scaffold `a+ b+ a2+`; the output keeps `a|b` (written reversed), and moves `a2` -/

def inEx : List Scaffold :=
  [{ name := ['s', '1'], rows := [.frag (fA 1), gap100, .frag (fB 1), gap100, .frag (fA2 1)] }]
def outEx : List OutAsm :=
  [{ key := none, curated := true, scaffolds :=
      [{ name := ['r', '1'], rows := [.frag (fB (-1)), gap100, .frag (fA (-1))] },
       { name := ['r', '2'], rows := [.frag (fA2 1)] }] }]

/-- one break (`b|a2`), no join; the kept junction `a|b` is recognised although it is now written reversed -/
example : ∃ st, makeStats inEx outEx 0 = .ok st ∧ st.breaks = 1 ∧ st.joins = 0 := by
  refine ⟨{ cuts := 0, breaks := 1, joins := 0, perAssembly := [(sPrimary, 1, 0)] }, ?_, rfl, rfl⟩
  decide +kernel

example : RevEquiv inEx (inEx.map Scaffold.reverse) := by
  unfold RevEquiv RevRel inEx
  simp

/-! ## 6. the cut counter

  `make_stats` passes the counter through (`st.cuts = cuts` above, and `assembliesFused` calls it with `b.cuts`).
  The only place that changes the counter is `cut_fragments`: +(pieces − 1) per cut contig, one piece per Pretext
  scaffold holding the contig; `cut_remaining_fragments` sums this over the multiply-found contigs.
  NOT proved here: the end-to-end equation "cuts = number of output fragments − number of input contigs" over the whole
  of `remap` (it needs the conservation theorem C01 end to end: every input contig not cut appears as exactly one
  output fragment, every cut one as exactly its pieces). -/

theorem cut_fragments_counter (b b' : Build) (fnd : Found) (h : cutFragments b fnd = .ok b') :
    b'.cuts = b.cuts + ((fnd.scaffolds.length : Int) - 1) ∧ b'.found = b.found :=
  cutFragments_cuts b b' fnd h

theorem cut_remaining_counter (b b' : Build) (h : cutRemaining b = .ok b') :
    b'.cuts = b.cuts + sumInts (b.multi.map (cutsOfKey b.found)) :=
  cutRemaining_cuts b b' h

/-- contig `c` 1..100, found in two Pretext scaffolds (baits 1..40 and 41..100): one cut -/
def tC : Fragment := { oid := 7, name := ['c'], start := 1, stop := 100, strand := 1 }
def bEx : Build :=
  { namer := { autosomePrefix := [] }, nextOid := 9, joinGap := none, err := 0,
    store := [{ o := { bait := { name := ['s'], start := 1, stop := 40, strand := 1 }, start := 1, stop := 100,
                       rows := [.frag tC] } },
              { o := { bait := { name := ['s'], start := 41, stop := 100, strand := 1 }, start := 1, stop := 100,
                       rows := [.frag tC] } }],
    found := [(tC.keyTuple, { fragment := tC, scaffolds := [0, 1] })],
    multi := [tC.keyTuple] }

example : (cutRemaining bEx).map (fun b' => (b'.cuts, b'.store.map (fun r => r.o.rows))) =
    .ok (1, [[.frag { oid := 9, name := ['c'], start := 1, stop := 40, strand := 1, tags := [['C', 'u', 't']] }],
             [.frag { oid := 10, name := ['c'], start := 41, stop := 100, strand := 1,
                      tags := [['C', 'u', 't']] }]]) := by
  decide +kernel

end AgpTpf.C11
