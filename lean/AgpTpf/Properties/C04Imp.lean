/-
  C04 / C13 — T1c tie: the model's indexer `indexFasta` IS the source's `index_fasta_file` (fasta/index.py, with its two
  closures `store_info` / `process_seq_buffer` expanded) as translated by `harness/translate_imp.py` into
  `Gen.Imp.index_fasta_file_imp nextOid buffer_size lines` (result `(nextOid, idx_dict, fh.tell(), asm.scaffolds)`).

  The statement asked for — for EVERY list of lines — is FALSE (`index_fasta_file_is_source_false`):
      lines = [b"A", b"A\n"], buffer_size = 100      source: TypeError      model: ValueError
      lines = [b"A", b"A\n", b">a\n", b"A\n"]        source: TypeError      model: returns an index for `a`
  Before any header the source's `line_end_bytes` is `None`, so `line[:-line_end_bytes]` raises TypeError for EVERY
  LF-terminated sequence line; the model raises it only while `residues_per_line` is `None` (the `match st.rpl with | none`
  branch of `indexLine`) and a header-less UNTERMINATED line sets `residues_per_line` on both sides.  Such a list of lines is
  not what `for line in fh` yields (only the last line of a file can lack its LF), so no file shows the difference.

  Proved (Proofs/ImpIndex.lean: state map `toSrc`, invariant `Inv`, one line = `indexLine`, closures = `processSeqBuffer` /
  `storeInfo`):
    `index_fasta_file_is_source_partial`   the tie under `preHeaderOk lines` (before the first header, an unterminated
                                           sequence line is not followed by an LF-terminated one) — the weakest shape
                                           condition on the header-less prefix under which the two agree line by line
    `index_fasta_file_is_source_lines`     … for lines that all end with LF except possibly the last
    `index_fasta_file_is_source_file`      … for `bLines file`, the lines of ANY file content, every buffer size: no hypothesis
    `index_fasta_file_is_source_full`      all four components, `fh.tell()` included
  Corollaries (C04 for the SOURCE): `source_index_spec`, `source_index_spec_open`, `source_index_duplicate`.
-/
import AgpTpf.Proofs.ImpIndex
import AgpTpf.Properties.C04
namespace AgpTpf.C04
open AgpTpf

/-
  the full statement (FALSE, see `index_fasta_file_is_source_false`):

  theorem index_fasta_file_is_source (lines : List Bytes) (bs : Int) :
      (Gen.Imp.index_fasta_file_imp 0 bs lines).map (fun r => (r.2.1, r.2.2.2, r.1))
        = (indexFasta lines bs).map (fun st => (st.idx, st.scaffolds, st.nextOid))
-/

/-- the counter-example: a header-less unterminated line followed by a terminated one — the source raises TypeError
    (`line[:-None]`), the model ValueError (no record at the end) -/
example : (Gen.Imp.index_fasta_file_imp 0 100 [[65], [65, 10]]).map (fun r => (r.2.1, r.2.2.2, r.1)) = .error .type := by rfl
example : (indexFasta [[65], [65, 10]] 100).map (fun st => (st.idx, st.scaffolds, st.nextOid)) = .error .value := by rfl

/-- … and with a record after it the model even returns an index -/
example : (Gen.Imp.index_fasta_file_imp 0 100 [[65], [65, 10], [62, 97, 10], [65, 10]]).map (fun r => (r.2.1, r.2.2.2, r.1))
    = .error .type := by rfl
example : (indexFasta [[65], [65, 10], [62, 97, 10], [65, 10]] 100).map (fun st => (st.idx, st.scaffolds, st.nextOid))
    = .ok ([(['a'], { length := 4, fileOffset := 6, rpl := 1, mll := 2 })],
           [{ name := ['a'], rows := [fragRow 0 ['a'] 0 2, gapRow 1, fragRow 1 ['a'] 3 4] }], 2) := by rfl

theorem index_fasta_file_is_source_false :
    ¬ ∀ (lines : List Bytes) (bs : Int),
      (Gen.Imp.index_fasta_file_imp 0 bs lines).map (fun r => (r.2.1, r.2.2.2, r.1))
        = (indexFasta lines bs).map (fun st => (st.idx, st.scaffolds, st.nextOid)) := by
  intro h
  have h1 := h [[65], [65, 10]] 100
  have e1 : (Gen.Imp.index_fasta_file_imp 0 100 [[65], [65, 10]]).map (fun r => (r.2.1, r.2.2.2, r.1)) = .error .type := by rfl
  have e2 : (indexFasta [[65], [65, 10]] 100).map (fun st => (st.idx, st.scaffolds, st.nextOid)) = .error .value := by rfl
  rw [e1, e2] at h1
  cases h1

/-- all four components of the source's result, `fh.tell()` included -/
theorem index_fasta_file_is_source_full (lines : List Bytes) (bs : Int) (h : ImpIndex.preHeaderOk lines = true) :
    Gen.Imp.index_fasta_file_imp 0 bs lines
      = (indexFasta lines bs).map (fun st => (st.nextOid, st.idx, st.pos, st.scaffolds)) :=
  ImpIndex.index_fasta_file_imp_eq bs lines h

/-- the model's indexer IS the source's `index_fasta_file`: same index, same derived assembly, same object ids, same
    exception class — for every buffer size and every list of lines whose header-less prefix is of the shape `preHeaderOk` -/
theorem index_fasta_file_is_source_partial (lines : List Bytes) (bs : Int) (h : ImpIndex.preHeaderOk lines = true) :
    (Gen.Imp.index_fasta_file_imp 0 bs lines).map (fun r => (r.2.1, r.2.2.2, r.1))
      = (indexFasta lines bs).map (fun st => (st.idx, st.scaffolds, st.nextOid)) := by
  rw [index_fasta_file_is_source_full lines bs h]
  cases indexFasta lines bs <;> rfl

/-- the hypothesis holds for well-formed input (a header first), for header-less input of the kind `for line in fh` can
    yield, and excludes exactly the counter-example shape -/
example : ImpIndex.preHeaderOk [[62, 97, 10], [65, 67, 10], [65]] = true := by decide
example : ImpIndex.preHeaderOk [[65, 10], [65, 10]] = true := by decide
example : ImpIndex.preHeaderOk [[65]] = true := by decide
example : ImpIndex.preHeaderOk [[65], [62, 97, 10], [65, 10]] = true := by decide
example : ImpIndex.preHeaderOk [[65], [65, 10]] = false := by decide

/-- … in particular for lines that all end with LF, except possibly the last (what binary file iteration yields) -/
theorem index_fasta_file_is_source_lines (lines : List Bytes) (bs : Int) (h : ImpIndex.Terminated lines) :
    (Gen.Imp.index_fasta_file_imp 0 bs lines).map (fun r => (r.2.1, r.2.2.2, r.1))
      = (indexFasta lines bs).map (fun st => (st.idx, st.scaffolds, st.nextOid)) :=
  index_fasta_file_is_source_partial lines bs (ImpIndex.preHeaderOk_of_terminated lines h)

example : ImpIndex.Terminated [[62, 97, 10], [65, 67, 10], [65]] := by
  intro l hl
  simp only [List.dropLast_cons_cons, List.dropLast_singleton, List.mem_cons, List.not_mem_nil, or_false] at hl
  rcases hl with rfl | rfl <;> rfl

/-- … and so for the lines of ANY file content (`bLines` = `for line in fh` in binary mode), every buffer size:
    no hypothesis is left -/
theorem index_fasta_file_is_source_file (file : Bytes) (bs : Int) :
    (Gen.Imp.index_fasta_file_imp 0 bs (bLines file)).map (fun r => (r.2.1, r.2.2.2, r.1))
      = (indexFasta (bLines file) bs).map (fun st => (st.idx, st.scaffolds, st.nextOid)) :=
  index_fasta_file_is_source_lines _ bs (ImpIndex.bLines_terminated file)

/-! ### the generated function on concrete files -/

/-- `>a\nACNG\n>b\r\nNA\r\n`: two records, LF and CRLF, N-runs, buffer size 2 (a flush inside record `a`) -/
example : Gen.Imp.index_fasta_file_imp 0 2 [[62, 97, 10], [65, 67, 78, 71, 10], [62, 98, 13, 10], [78, 65, 13, 10]] =
    .ok (3,
      [(['a'], { length := 4, fileOffset := 3, rpl := 4, mll := 5 }),
       (['b'], { length := 2, fileOffset := 12, rpl := 2, mll := 4 })],
      16,
      [{ name := ['a'], rows := [fragRow 0 ['a'] 0 2, gapRow 1, fragRow 1 ['a'] 3 4] },
       { name := ['b'], rows := [gapRow 1, fragRow 2 ['b'] 1 2] }]) := by rfl

/-- `>a x\nACGTNN\nAC\n>n\nNNNN\n>c\nGG` : a description after the name, a record without any ACGT, no final newline;
    buffer size 1 forces a flush after every line, and a run that continues over a flush (`…GT` | `NN` | `AC`) -/
example : Gen.Imp.index_fasta_file_imp 0 1
      (bLines [62, 97, 32, 120, 10, 65, 67, 71, 84, 78, 78, 10, 65, 67, 10, 62, 110, 10, 78, 78, 78, 78, 10, 62, 99, 10, 71, 71]) =
    .ok (3,
      [(['a'], { length := 8, fileOffset := 5, rpl := 6, mll := 7 }),
       (['n'], { length := 4, fileOffset := 18, rpl := 4, mll := 5 }),
       (['c'], { length := 2, fileOffset := 26, rpl := 2, mll := 3 })],
      28,
      [{ name := ['a'], rows := [fragRow 0 ['a'] 0 4, gapRow 2, fragRow 1 ['a'] 6 8] },
       { name := ['n'], rows := [gapRow 4] },
       { name := ['c'], rows := [fragRow 2 ['c'] 0 2] }]) := by rfl

/-- the same file with a buffer that is never exceeded, and with `buffer_size = 0` / negative: the same result -/
example : Gen.Imp.index_fasta_file_imp 0 250000 (bLines [62, 97, 10, 65, 67, 71, 84, 78, 78, 10, 65, 67, 10]) =
    .ok (2, [(['a'], { length := 8, fileOffset := 3, rpl := 6, mll := 7 })], 13,
      [{ name := ['a'], rows := [fragRow 0 ['a'] 0 4, gapRow 2, fragRow 1 ['a'] 6 8] }]) := by rfl
example : Gen.Imp.index_fasta_file_imp 0 (-3) (bLines [62, 97, 10, 65, 67, 71, 84, 78, 78, 10, 65, 67, 10]) =
    .ok (2, [(['a'], { length := 8, fileOffset := 3, rpl := 6, mll := 7 })], 13,
      [{ name := ['a'], rows := [fragRow 0 ['a'] 0 4, gapRow 2, fragRow 1 ['a'] 6 8] }]) := by rfl

/-- a duplicate name ⇒ ValueError; a sequence line before any header ⇒ TypeError; an empty file ⇒ ValueError;
    a header without a name (`>\n`, `> \n`) ⇒ IndexError; an empty bytes object as a line ⇒ IndexError;
    a non-ASCII name ⇒ the `.decode()` error -/
example : Gen.Imp.index_fasta_file_imp 0 100 [[62, 97, 10], [65, 10], [62, 97, 32, 120, 10], [67, 10]] = .error .value := by rfl
example : Gen.Imp.index_fasta_file_imp 0 100 [[65, 67, 10], [62, 97, 10], [65, 10]] = .error .type := by rfl
example : Gen.Imp.index_fasta_file_imp 0 100 [] = .error .value := by rfl
example : Gen.Imp.index_fasta_file_imp 0 100 [[62, 10]] = .error .index := by rfl
example : Gen.Imp.index_fasta_file_imp 0 100 [[62, 32, 10]] = .error .index := by rfl
example : Gen.Imp.index_fasta_file_imp 0 100 [[62, 97, 10], []] = .error .index := by rfl
example : Gen.Imp.index_fasta_file_imp 0 100 [[62, 200, 10]] = .error .other := by rfl
/-- a header-less unterminated single line: ValueError when it fits the buffer, TypeError (`None + int`) when it does not -/
example : Gen.Imp.index_fasta_file_imp 0 100 (bLines [65, 67, 71, 84]) = .error .value := by rfl
example : Gen.Imp.index_fasta_file_imp 0 2 (bLines [65, 67, 71, 84]) = .error .type := by rfl

/-! ### C04 for the SOURCE -/

/-- the SOURCE's indexer, run on the lines of any well-formed FASTA rendering (any number of records, LF / CRLF per record,
    descriptions, any residue symbols, any line lengths) with ANY buffer size, returns the faidx quintuples and the tiling
    assembly of `indexFasta_spec` -/
theorem source_index_spec (bs : Int) (recs : List Rec) (hne : recs ≠ []) (hwf : ∀ r ∈ recs, r.WF)
    (hnd : (recs.map Rec.name).Nodup) :
    ∃ oid pos, Gen.Imp.index_fasta_file_imp 0 bs (bLines (fileOf recs)) =
      .ok (oid, (recs.foldl addRec {}).idx, pos, (recs.foldl addRec {}).scaffolds) := by
  obtain ⟨st, e, hi, hs⟩ := indexFasta_spec bs recs hne hwf hnd
  refine ⟨st.nextOid, st.pos, ?_⟩
  rw [index_fasta_file_is_source_full _ bs (ImpIndex.preHeaderOk_of_terminated _ (ImpIndex.bLines_terminated _)), e, ← hi, ← hs]
  rfl

/-- … also when the final line terminator is missing -/
theorem source_index_spec_open (bs : Int) (init : List Rec) (last : Rec) (ls : List Bytes) (l : Bytes)
    (hwf : ∀ r ∈ init ++ [last], r.WF) (hnd : ((init ++ [last]).map Rec.name).Nodup)
    (hl : last.lines = ls ++ [l]) (hne : l ≠ []) :
    ∃ oid pos, Gen.Imp.index_fasta_file_imp 0 bs (bLines (fileOpen init last ls l)) =
      .ok (oid, ((init ++ [last]).foldl addRec {}).idx, pos, ((init ++ [last]).foldl addRec {}).scaffolds) := by
  obtain ⟨st, e, hi, hs⟩ := indexFasta_spec_open bs init last ls l hwf hnd hl hne
  refine ⟨st.nextOid, st.pos, ?_⟩
  rw [index_fasta_file_is_source_full _ bs (ImpIndex.preHeaderOk_of_terminated _ (ImpIndex.bLines_terminated _)), e, ← hi, ← hs]
  rfl

/-- two records with the same name: the SOURCE raises ValueError -/
theorem source_index_duplicate (bs : Int) (recs : List Rec) (hwf : ∀ r ∈ recs, r.WF)
    (hdup : ¬ (recs.map Rec.name).Nodup) :
    Gen.Imp.index_fasta_file_imp 0 bs (bLines (fileOf recs)) = .error .value := by
  rw [index_fasta_file_is_source_full _ bs (ImpIndex.preHeaderOk_of_terminated _ (ImpIndex.bLines_terminated _)),
    indexFasta_duplicate bs recs hwf hdup]
  rfl

/-- the hypotheses of the corollaries are those of `indexFasta_spec` (satisfiable: see the `example`s in `Properties/C04.lean`);
    here the corollary's prediction is checked against direct evaluation of the generated function -/
example :
    let a : Rec := { hdr := [97], le := [10], lines := [[65, 67], [71]] }
    let b : Rec := { hdr := [98, 32, 120], le := [13, 10], lines := [[78, 78, 65]] }
    Gen.Imp.index_fasta_file_imp 0 2 (bLines (fileOf [a, b])) =
      .ok (2, ([a, b].foldl addRec {}).idx, 19, ([a, b].foldl addRec {}).scaffolds) := by rfl

end AgpTpf.C04
