-- root of the library: every model file and every property file
import AgpTpf.Model.Py
import AgpTpf.Model.Basic
import AgpTpf.Model.NaturalKey
import AgpTpf.Model.Lookup
import AgpTpf.Model.Text
import AgpTpf.Model.Fasta
import AgpTpf.Model.Remap
import AgpTpf.Properties.C19
