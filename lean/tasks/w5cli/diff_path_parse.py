# Differential test used while writing Model/CliPlan.lean: pathSuffix/pathStem/formatFromExt/parseOutputFile/logFileName/infoYamlName vs pathlib + the real parse_output_file on ~1700 names.
# Usage: cd <scratch dir>; /venv/bin/python diff_path_parse.py [args]   (writes T1.lean there);  cd /verif/lean && lake env lean <scratch dir>/T1.lean
# Expected output of the Lean file: `(n, 0, ...)` = n cases, 0 mismatches, then `[]`.
import random, itertools
from pathlib import Path, PurePosixPath
from tola.assembly.scripts.pretext_to_asm import parse_output_file
from tola.assembly.parser import format_from_file_extn
random.seed(5)
def lean_str(s):
    out = '"'
    for c in s:
        if c == '\n': out += '\\n'
        elif c == '"': out += '\\"'
        elif c == '\\': out += '\\\\'
        else: out += c
    return out + '".toList'
alpha = list(".....aAfFgGpPtTsS11209_-\nxq")
names = set()
for n in range(0, 4):
    for t in itertools.product(".af1\n", repeat=n):
        names.add("".join(t))
for _ in range(1500):
    k = random.randint(1, 9)
    names.add("".join(random.choice(alpha) for _ in range(k)))
for base in ["x", "x.2", "x.12", "a.b", ".x", "x.", "x.3\n", "..1", "x.01", "1"]:
    for ext in [".fa", ".fasta", ".FA", ".Fasta", ".fab", ".fa2", ".agp", ".AGP", ".tpf", ".tpfx", ".fas", ".fast", ".fastaq", ".fa\n", ".agp\n", ".fa\n\n", ".f", ".ag", ".fa-", ".gz", ".fa_1", ".aGp9", ".log", ".tp"]:
        names.add(base + ext)
names = sorted(n for n in names if "/" not in n and n not in (".",) and "\x00" not in n)
def opt(f):
    try: return ("ok", f())
    except Exception as e: return ("err", type(e).__name__)
rows = []
for n in names:
    p = PurePosixPath("d") / n if n else PurePosixPath("")
    if n and p.name != n:  # normalised away
        continue
    suf, stem = p.suffix, p.stem
    fm = format_from_file_extn(p)
    pr = opt(lambda: parse_output_file(p))
    ws = opt(lambda: p.with_suffix(".log").name)
    wn = opt(lambda: p.with_name(p.stem + ".info.yaml").name)
    rows.append((n, suf, stem, fm, pr, ws, wn))
errmap = {"AttributeError": ".attribute", "ValueError": ".value"}
def lr(r, conv):
    return f"(.ok {conv(r[1])})" if r[0] == "ok" else f"(.error {errmap[r[1]]})"
with open("T1.lean", "w") as fh:
    fh.write("import AgpTpf.Model.CliPlan\nopen AgpTpf\n")
    items = []
    for (n, suf, stem, fm, pr, ws, wn) in rows:
        fmS = "none" if fm is None else f"(some Fmt.{fm})"
        prS = lr(pr, lambda v: f"(Fmt.{v[0]}, {lean_str(v[2])}, {lean_str(v[3])}, {lean_str(v[4])})")
        items.append(f"  ({lean_str(n)}, {lean_str(suf)}, {lean_str(stem)}, {fmS}, {prS}, {lr(ws, lean_str)}, {lr(wn, lean_str)})")
    T = "List (Str × Str × Str × Option Fmt × R (Fmt × Str × Str × Str) × R Str × R Str)"
    nch = 0
    for i in range(0, len(items), 40):
        fh.write(f"def cases{nch} : {T} := [\n" + ",\n".join(items[i:i+40]) + "]\n")
        nch += 1
    fh.write(f"def cases : {T} := " + " ++ ".join(f"cases{j}" for j in range(nch)) + "\n")
    fh.write("""
def exEq {α} [DecidableEq α] (a b : R α) : Bool := match a, b with
  | .ok x, .ok y => x = y
  | .error e, .error f => e = f
  | _, _ => false
def bad := cases.filter (fun (n, suf, stem, fm, pr, ws, wn) =>
  !(pathSuffix n = suf && pathStem n = stem && formatFromExt (pathSuffix n) none = fm && exEq (parseOutputFile n) pr
    && exEq (logFileName n) ws && exEq (infoYamlName n) wn))
#eval (cases.length, bad.length)
#eval bad.take 5 |>.map (fun (n, _) => String.ofList n)
""")
print(len(rows))
