# Differential test used while writing Model/CliPlan.lean: cliOutputPlan / infoRecord / chromosomesReport vs the real setup_logging, parse_output_file, write_info_yaml, name_assemblies, write_assemblies, write_chr_csv_files, write_chr_report_csv (get_output_filehandle recording the names) on random assembly dicts; argv: SEED NCASES.
# Usage: cd <scratch dir>; /venv/bin/python diff_plan.py [args]   (writes T2.lean there);  cd /verif/lean && lake env lean <scratch dir>/T2.lean
# Expected output of the Lean file: `(n, 0, ...)` = n cases, 0 mismatches, then `[]`.
import io, random, sys, logging, copy
from pathlib import Path
import tola.assembly.scripts.pretext_to_asm as mod
import tola.assembly.assembly_stats as smod
from tola.assembly.assembly import Assembly
from tola.assembly.scaffold import Scaffold
from tola.assembly.fragment import Fragment
from tola.assembly.gap import Gap
from tola.assembly.assembly_stats import AssemblyStats
random.seed(int(sys.argv[1]) if len(sys.argv) > 1 else 11)
NCASES = int(sys.argv[2]) if len(sys.argv) > 2 else 300

def lean_str(s):
    out = '"'
    for c in s:
        if c == '\n': out += '\\n'
        elif c == '"': out += '\\"'
        elif c == '\\': out += '\\\\'
        else: out += c
    return out + '".toList'
def lean_opt(s): return "none" if s is None else f"(some {lean_str(s)})"
def lean_bool(b): return "true" if b else "false"

class NC(io.StringIO):
    def close(self): pass
class NCB(io.BytesIO):
    def close(self): pass
class DummyStream:
    def __init__(self, fh, fai): pass
    def write_assembly(self, asm): pass
mod.FastaStream = DummyStream
class RecWriter:
    rows = []
    def __init__(self, fh, quoting=None): self.fh = fh; self.first = True
    def writerow(self, row):
        self.fh.write("x\n")
        if self.first: self.first = False
        else: RecWriter.rows.append(tuple(row))
smod.csv.writer = RecWriter   # note: patches the csv module attribute used by assembly_stats

keys_pool = [None, "Primary", "Haplotig", "Contaminant", "FalseDuplicate", "Hap1", "hap1", "Hap2", "additional_haplotigs",
             "additional_haplotig", "Additional_Haplotig", "all_haplotigs", "all_haplotig", "", "primary", "haplotig", "contaminant"]
outnames = ["x.2.fa", "x.fa", "x.FA", "x.1.fab", "x.agp", "x.2.tpf", "x.agp.fa", "x.fa.agp", "a.b.3.fa_x", "x", ".fa", "..fa", "x.3\n.fa",
            "x.12.Fasta", "x.fa\n", "x.log.fa", "x.info.yaml.agp", "x.chr_report.csv.tpf", "x.1.primary.curated.fa", "x.tpf.gz", ""]
def mk_scaffold(i):
    rank = random.choice([1, 1, 2, 3])
    orig = random.choice([None, "", "Sc1", "Sc2", "Sc3"])
    nm = random.choice(["SUPER_1", "SUPER_2", "SUPER_X", "X", "SUPER_1_unloc_1", "scaffold_7", "S"]) 
    L = random.randint(1, 50)
    rows = [Fragment("c%d" % i, 1, L, 1)]
    if random.random() < 0.4:
        rows += [Gap(random.randint(1, 9), "scaffold"), Fragment("d%d" % i, 1, random.randint(1, 9), -1)]
    return Scaffold(nm, rows=rows, rank=rank, original_name=orig)
def lean_scaffold(s):
    rows = []
    for r in s.rows:
        if isinstance(r, Fragment):
            rows.append(f".frag {{ name := {lean_str(r.name)}, start := {r.start}, stop := {r.end}, strand := {r.strand} }}")
        else:
            rows.append(f".gap {{ length := {r.length}, gapType := {lean_str(r.gap_type)} }}")
    return f"{{ name := {lean_str(s.name)}, rank := {s.rank}, originalName := {lean_opt(s.original_name)}, rows := [{', '.join(rows)}] }}"

errmap = {"AttributeError": ".attribute", "ValueError": ".value"}
items = []
for case in range(NCASES):
    outname = random.choice(outnames)
    write_log = random.random() < 0.7
    prefix = random.choice(["SUPER_", "", "S"])
    nk = random.randint(0, 4)
    keys = random.sample(keys_pool, nk)
    asm_dict = {}
    sid = 0
    for k in keys:
        scs = [mk_scaffold(sid + j) for j in range(random.randint(0, 3))]
        sid += 10
        asm_dict[k] = Assembly("a", scaffolds=scs, curated=random.random() < 0.5)
    lean_outs = "[" + ", ".join(
        f"{{ key := {lean_opt(k)}, curated := {lean_bool(a.curated)}, scaffolds := [{', '.join(lean_scaffold(s) for s in a.scaffolds)}] }}"
        for k, a in asm_dict.items()) + "]"
    stats = AssemblyStats(prefix)
    for nm in random.sample(["Primary", "Hap1", "Hap2"], random.randint(0, 3)):
        stats.per_assembly_stats[nm] = {"manual_breaks": random.randint(0, 9), "manual_joins": random.randint(0, 9)}
    stats.breaks = random.randint(0, 20); stats.joins = random.randint(0, 20)
    lean_stats = "{ breaks := %d, joins := %d, perAssembly := [%s] }" % (stats.breaks, stats.joins,
        ", ".join(f"({lean_str(n)}, {d['manual_breaks']}, {d['manual_joins']})" for n, d in stats.per_assembly_stats.items()))
    # ---- run the real code
    opened = []
    def goh(path, clobber, mode=""):
        assert path.parent == Path("d"), path
        opened.append(path.name)
        return NCB() if mode == "b" else NC()
    mod.get_output_filehandle = goh
    info_box = []
    mod.yaml.safe_dump = lambda info, sort_keys=False: (info_box.append(copy.deepcopy(info)), "y")[1]
    def bc(**conf):
        if "filename" in conf:
            assert conf["filename"].parent == Path("d")
            opened.append(conf["filename"].name)
    logging.basicConfig = bc
    RecWriter.rows = []
    output_file = Path("d") / outname if outname else Path("")
    err = None
    try:
        lf = mod.setup_logging("INFO", output_file, write_log, True)
        for h in list(logging.getLogger().handlers): logging.getLogger().removeHandler(h)
        out_fmt, out_dir, out_root, asm_version, suffix = mod.parse_output_file(output_file)
        mod.write_info_yaml(output_file, stats, asm_dict, True)
        named = mod.name_assemblies(asm_dict, out_root, asm_version)
        mod.write_assemblies(object(), out_fmt, out_dir, suffix, named, True)
        mod.write_chr_csv_files(out_dir, stats, named, True)
        RecWriter.rows = []
        mod.write_chr_report_csv(output_file, stats, named, True)
    except (AttributeError, ValueError) as e:
        err = type(e).__name__
    plan = f"(.error {errmap[err]})" if err else "(.ok [" + ", ".join(lean_str(p) for p in opened) + "])"
    # info: compare only when produced
    if info_box:
        info = info_box[0]
        asml = ", ".join(f"({lean_str(n)}, {d['manual_breaks']}, {d['manual_joins']})" for n, d in info["assemblies"].items())
        mb = f"(some {info['manual_breaks']})" if "manual_breaks" in info else "none"
        mj = f"(some {info['manual_joins']})" if "manual_joins" in info else "none"
        lean_info = f"(some {{ assemblies := [{asml}], manualBreaks := {mb}, manualJoins := {mj}, haplotigRemovals := {info['manual_haplotig_removals']} }})"
    else:
        lean_info = "none"
    if err is None:
        rows = ", ".join(f"{{ assembly := {lean_str(r[0])}, seqName := {lean_str(r[1])}, chromosome := {lean_str(r[2])}, localised := {lean_bool(r[3]=='true')}, pretextScaffold := {lean_opt(r[4])}, length := {r[5]}, lengthMinusGaps := {r[6]} }}" for r in RecWriter.rows)
        lean_rows = f"(some [{rows}])"
    else:
        lean_rows = "none"
    items.append(f"  ({lean_str(outname)}, {lean_bool(write_log)}, {lean_str(prefix)}, {lean_outs}, {lean_stats}, {plan}, {lean_info}, {lean_rows})")

T = "List (Str × Bool × Str × List OutAsm × Stats × R (List Str) × Option InfoRecord × Option (List ReportRow))"
with open("T2.lean", "w") as fh:
    fh.write("import AgpTpf.Model.CliPlan\nopen AgpTpf\nset_option maxRecDepth 4000\n")
    n = 0
    for i in range(0, len(items), 10):
        fh.write(f"def cases{n} : {T} := [\n" + ",\n".join(items[i:i+10]) + "]\n"); n += 1
    fh.write(f"def cases : {T} := " + " ++ ".join(f"cases{j}" for j in range(n)) + "\n")
    fh.write("""
def exEq {α} [DecidableEq α] (a b : R α) : Bool := match a, b with
  | .ok x, .ok y => decide (x = y)
  | .error e, .error f => e = f
  | _, _ => false
def rowsOf (outName : Str) (outs : List OutAsm) (prefix_ : Str) : R (List ReportRow) := do
  let (_, root, version, _) ← parseOutputFile outName
  let named ← nameAssemblies outs root version
  pure (chromosomesReport prefix_ (namedDict named))
def bad := (List.range cases.length).zip cases |>.filter (fun (_, (n, wl, pre, outs, stats, plan, info, rows)) =>
  !(exEq (cliOutputPlan n wl outs pre) plan
    && (match info with | some i => infoRecord stats outs = i | none => true)
    && (match rows with | some r => exEq (rowsOf n outs pre) (.ok r) | none => true)))
#eval (cases.length, bad.length, (cases.filter (fun c => match c.2.2.2.2.2.1 with | .ok _ => true | _ => false)).length)
#eval bad.take 3 |>.map (fun (i, (n, wl, pre, outs, stats, plan, info, rows)) => (i, String.ofList n, repr (cliOutputPlan n wl outs pre), repr plan))
""")
print(len(items))
