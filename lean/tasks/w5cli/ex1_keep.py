import io, logging
from pathlib import Path
import tola.assembly.scripts.pretext_to_asm as m
from tola.assembly.assembly import Assembly
from tola.assembly.scaffold import Scaffold
from tola.assembly.fragment import Fragment
from tola.assembly.gap import Gap
from tola.assembly.assembly_stats import AssemblyStats
class NC(io.StringIO):
    def close(self): pass
class NCB(io.BytesIO):
    def close(self): pass
class DS:
    def __init__(s, fh, fai): pass
    def write_assembly(s, a): pass
m.FastaStream = DS
opened = []
m.get_output_filehandle = lambda p, c, mode="": (opened.append(p.name), NCB() if mode == "b" else NC())[1]
logging.basicConfig = lambda **c: opened.append(c["filename"].name) if "filename" in c else None
def demo(outname, d, per, write_log=True):
    opened.clear()
    st = AssemblyStats("SUPER_"); st.per_assembly_stats = per; st.breaks = 7; st.joins = 9
    o = Path("d") / outname
    m.setup_logging("INFO", o, write_log, True)
    fmt, dr, root, v, sfx = m.parse_output_file(o)
    yb = []
    m.yaml.safe_dump = lambda info, sort_keys=False: (yb.append(dict(info)), "")[1]
    m.write_info_yaml(o, st, d, True)
    nd = m.name_assemblies(d, root, v)
    m.write_assemblies(object(), fmt, dr, sfx, nd, True)
    m.write_chr_csv_files(dr, st, nd, True)
    rep = st.chromosomes_report_csv(nd)
    m.write_chr_report_csv(o, st, nd, True)
    print(opened); print(yb[0]); print(rep)
sc = lambda n, r, o, L, g=0: Scaffold(n, rows=[Fragment("c", 1, L, 1)] + ([Gap(g, "scaffold"), Fragment("e", 1, 5, 1)] if g else []), rank=r, original_name=o)
demo("x.2.fa", {None: Assembly("a", scaffolds=[sc("SUPER_1", 1, "Sc1", 30, 10), sc("SUPER_1_unloc_1", 1, "Sc1", 8), sc("scaffold_7", 3, "Sc9", 4)], curated=True),
                "Haplotig": Assembly("h", scaffolds=[sc("H_1", 3, "Sc2", 6), sc("H_2", 3, "Sc3", 5)])}, {"Primary": {"manual_breaks": 1, "manual_joins": 2}})
demo("y.tpf", {"Hap1": Assembly("a", scaffolds=[sc("SUPER_X", 2, "Sc1", 30)], curated=True), "Hap2": Assembly("b", scaffolds=[sc("SUPER_1", 1, "", 20), sc("SUPER_2", 1, "", 10)], curated=True),
               "Contaminant": Assembly("c", scaffolds=[sc("scaffold_3", 3, "Sc4", 3)])}, {"Hap1": {"manual_breaks": 1, "manual_joins": 2}, "Hap2": {"manual_breaks": 3, "manual_joins": 4}}, write_log=False)
