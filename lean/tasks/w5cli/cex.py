import io, logging
from pathlib import Path
import tola.assembly.scripts.pretext_to_asm as m
from tola.assembly.assembly import Assembly
from tola.assembly.scaffold import Scaffold
from tola.assembly.fragment import Fragment
opened = []
class NC(io.StringIO):
    def close(self): pass
m.get_output_filehandle = lambda p, c, mode="": (opened.append(p.name), NC())[1]
sc = lambda n: Scaffold(n, rows=[Fragment("c", 1, 5, 1)], rank=3)
def show(title, d):
    opened.clear()
    nd = m.name_assemblies(d, "x", "1")
    m.write_assemblies(None, "AGP", Path("d"), ".agp", nd, True)
    print(title, "| keys:", list(nd.keys()), "| names:", [a.name for a in nd.values()], "| files:", opened)
show("case-variant keys, single", {None: Assembly("p", [], [sc("S")], curated=True), "Hap1": Assembly("a", [], [sc("A")], curated=True), "hap1": Assembly("b", [], [sc("B")], curated=True)})
show("case-variant keys, multi", {"Hap1": Assembly("a", [], [sc("A")], curated=True), "hap1": Assembly("b", [], [sc("B")], curated=True)})
show("additional_haplotig + Haplotig", {None: Assembly("p", [], [sc("S")], curated=True), "additional_haplotig": Assembly("a", [], [sc("A")], curated=True), "Haplotig": Assembly("h", [], [sc("H_1")])})
show("all_haplotig (non-curated) in Primary branch", {"Primary": Assembly("p", [], [sc("S")], curated=True), "Hap2": Assembly("a", [], [sc("A")], curated=True), "all_haplotig": Assembly("h", [], [sc("Q")])})
show("contaminant haplotype + Contaminant tag, single", {None: Assembly("p", [], [sc("S")], curated=True), "contaminant": Assembly("a", [], [sc("A")], curated=True), "Contaminant": Assembly("c", [], [sc("C")])})
show("key additional_haplotigs + Haplotig (dict key collision)", {None: Assembly("p", [], [sc("S")], curated=True), "additional_haplotigs": Assembly("a", [], [sc("A")], curated=True), "Haplotig": Assembly("h", [], [sc("H_1")])})
show("key all_haplotigs curated in Primary branch", {"Primary": Assembly("p", [], [sc("S")], curated=True), "all_haplotigs": Assembly("a", [], [sc("A")])  , "Hap2": Assembly("b", [], [sc("B")], curated=True)})
