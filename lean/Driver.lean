/-
  Line-protocol driver over the executable model: one JSON request per line → one JSON reply per line.
  It only decodes, calls the SAME definitions the theorems are about, and encodes.
-/
import Lean.Data.Json
import AgpTpf.Model.Py
import AgpTpf.Model.Basic
import AgpTpf.Model.NaturalKey
import AgpTpf.Model.Lookup
import AgpTpf.Model.Text
import AgpTpf.Model.Fasta
import AgpTpf.Model.Remap
import AgpTpf.Model.Cache
import AgpTpf.Model.Cli
import AgpTpf.Model.Outputs
import AgpTpf.Model.CliPlan
import AgpTpf.Model.Pretext
import AgpTpf.Model.AsmFormat
open Lean AgpTpf

abbrev D := Except String

def jstr (s : Str) : Json := Json.str (String.ofList s)
def jint (i : Int) : Json := Json.num (JsonNumber.fromInt i)
def jnat (n : Nat) : Json := Json.num (JsonNumber.fromNat n)
def jarr {α} (f : α → Json) (l : List α) : Json := Json.arr (l.map f).toArray
def jopt {α} (f : α → Json) : Option α → Json
  | some x => f x
  | none => Json.null

def getS (j : Json) (k : String) : D Str := do let v ← j.getObjVal? k; let s ← v.getStr?; pure s.toList
def getI (j : Json) (k : String) : D Int := do let v ← j.getObjVal? k; v.getInt?
def getB (j : Json) (k : String) : D Bool := do let v ← j.getObjVal? k; v.getBool?
def getA (j : Json) (k : String) : D (List Json) := do let v ← j.getObjVal? k; let a ← v.getArr?; pure a.toList
def getOptS (j : Json) (k : String) : D (Option Str) :=
  match j.getObjVal? k with
  | .ok Json.null => pure none
  | .ok v => do let s ← v.getStr?; pure (some s.toList)
  | .error _ => pure none
def getSL (j : Json) (k : String) : D (List Str) := do
  let a ← getA j k
  a.mapM (fun v => do let s ← v.getStr?; pure s.toList)
def getIL (j : Json) (k : String) : D (List Int) := do let a ← getA j k; a.mapM (·.getInt?)
def getNL (j : Json) (k : String) : D (List Nat) := do let a ← getIL j k; pure (a.map Int.toNat)

def decFrag (j : Json) : D Fragment := do
  let oid := (getI j "oid").toOption.getD 0
  let tags := (getSL j "tags").toOption.getD []
  pure { oid := oid.toNat, name := ← getS j "name", start := ← getI j "start", stop := ← getI j "end",
         strand := ← getI j "strand", tags := tags }

def decRow (j : Json) : D Row := do
  let t ← getS j "t"
  if t = ['G'] then pure (.gap { length := ← getI j "len", gapType := ← getS j "type" })
  else do let f ← decFrag j; pure (.frag f)

def decScaffold (j : Json) : D Scaffold := do
  let rows ← (← getA j "rows").mapM decRow
  let rank := (getI j "rank").toOption.getD 0
  let otags := match getSL j "original_tags" with | .ok l => some l | .error _ => none
  pure { name := ← getS j "name", rows := rows, tag := ← getOptS j "tag", haplotype := ← getOptS j "haplotype",
         rank := rank, originalName := ← getOptS j "original_name", originalTags := otags }

def encFrag (f : Fragment) : Json :=
  Json.mkObj [("t", "F"), ("oid", jnat f.oid), ("name", jstr f.name), ("start", jint f.start), ("end", jint f.stop),
              ("strand", jint f.strand), ("tags", jarr jstr f.tags)]
def encRow : Row → Json
  | .frag f => encFrag f
  | .gap g => Json.mkObj [("t", "G"), ("len", jint g.length), ("type", jstr g.gapType)]
def encScaffold (s : Scaffold) : Json :=
  Json.mkObj [("name", jstr s.name), ("rows", jarr encRow s.rows), ("tag", jopt jstr s.tag),
              ("haplotype", jopt jstr s.haplotype), ("rank", jint s.rank), ("original_name", jopt jstr s.originalName),
              ("original_tags", jopt (jarr jstr) s.originalTags)]

def encR {α} (f : α → Json) : R α → Json
  | .ok x => Json.mkObj [("ok", f x)]
  | .error e => Json.mkObj [("err", Json.str e.name)]

def encJCell : JCell → Json
  | .s x => jstr x
  | .i x => jint x
def encJunction (j : Junction) : Json := Json.arr #[encJCell j.1, encJCell j.2.1, encJCell j.2.2.1, encJCell j.2.2.2]

def encOv (o : OverlapResult) : Json :=
  let figs : List (String × Json) := [
    ("start_overhang", jint o.startOverhang), ("end_overhang", jint o.endOverhang), ("length", jint o.length),
    ("start_row_bait_overlap", encR jint o.startRowBaitOverlap), ("end_row_bait_overlap", encR jint o.endRowBaitOverlap),
    ("overhang_if_start_removed", encR jint o.overhangIfStartRemoved),
    ("overhang_if_end_removed", encR jint o.overhangIfEndRemoved)]
  Json.mkObj ([("start", jint o.start), ("end", jint o.stop), ("rows", jarr encRow o.rows)] ++ figs)

def hPred (j : Json) : D Json := do
  let a ← decFrag (← j.getObjVal? "a")
  let b ← decFrag (← j.getObjVal? "b")
  pure (Json.mkObj [("overlaps", Json.bool (a.overlaps b)), ("overlap_length", jopt jint (a.overlapLength b)),
    ("abuts", Json.bool (a.abuts b)), ("gap_between", jopt jint (a.gapBetween b)),
    ("junction", encR encJunction (junctionTuple a b))])

def hOvPairs (j : Json) : D Json := do
  let scs ← (← getA j "scaffolds").mapM decScaffold
  let frags := scs.flatMap Scaffold.fragments
  pure (jarr (fun (p : Fragment × Fragment) => Json.arr #[jnat p.1.oid, jnat p.2.oid]) (overlappingPairs frags))

def encKey (k : NatKey) : Json :=
  Json.arr ((jstr k.first :: k.rest.flatMap (fun p => [jint p.1, jstr p.2])).toArray)

def hNatKey (j : Json) : D Json := do
  let names ← getSL j "names"
  pure (jarr (fun n => encR encKey (naturalKey n)) names)

def hSort (j : Json) : D Json := do
  let items ← getA j "items"
  let scs ← items.mapM (fun it => do
    pure ({ name := ← getS it "name", rank := ← getI it "rank", originalName := some (← getS it "id") } : Scaffold))
  let smart ← getB j "smart"
  let r := if smart then smartSort scs else sortedByName scs
  pure (encR (jarr (fun (s : Scaffold) => jopt jstr s.originalName)) r)

def hLookup (j : Json) : D Json := do
  let rows ← (← getA j "rows").mapM decRow
  let qs ← getA j "queries"
  let out ← qs.mapM (fun q => do
    let a ← getI q "a"; let b ← getI q "b"
    let bait : Fragment := { name := [], start := a, stop := b, strand := 1 }
    pure (encR (jopt (fun (o : OverlapResult) =>
      Json.mkObj [("start", jint o.start), ("end", jint o.stop), ("oids", jarr (fun r => match r with
        | Row.frag f => jnat f.oid | Row.gap _ => jint (-1)) o.rows), ("n", jnat o.rows.length)])) (findOverlaps rows bait)))
  pure (Json.arr out.toArray)

def decOp (j : Json) : D OvOp := do
  let k ← getS j "op"
  let s := String.ofList k
  if s == "discard_start" then pure .discardStart
  else if s == "discard_end" then pure .discardEnd
  else if s == "trim_large" then pure (.trimLarge (← getI j "err"))
  else if s == "trim_first" then pure (.trimFirst (← getB j "ks") (← getB j "ke"))
  else if s == "trim_last" then pure (.trimLast (← getB j "ks") (← getB j "ke"))
  else throw s!"bad op {s}"

def hOvOps (j : Json) : D Json := do
  let rows ← (← getA j "rows").mapM decRow
  let bait ← decFrag (← j.getObjVal? "bait")
  let ops ← (← getA j "ops").mapM decOp
  match findOverlaps rows bait with
  | .error e => pure (Json.mkObj [("lookup_err", Json.str e.name)])
  | .ok none => pure (Json.mkObj [("lookup", Json.null)])
  | .ok (some o) =>
    let rec go (o : OverlapResult) (ops : List OvOp) (oid : Nat) (acc : List Json) : List Json :=
      match ops with
      | [] => acc.reverse
      | op :: rest =>
        match applyOp o op oid with
        | .ok o' => go o' rest (oid + 1) (Json.mkObj [("ok", encOv o')] :: acc)
        | .error e => (Json.mkObj [("err", Json.str e.name)] :: acc).reverse
    pure (Json.mkObj [("lookup", encOv o), ("steps", Json.arr (go o ops 1000000 []).toArray)])

def encAssembly (a : Assembly) : Json :=
  Json.mkObj [("header", jarr jstr a.header), ("scaffolds", jarr encScaffold a.scaffolds)]

def hParse (agp : Bool) (j : Json) : D Json := do
  let lines ← getSL j "lines"
  pure (encR encAssembly (if agp then parseAgp lines else parseTpf lines))

def decAssembly (j : Json) : D Assembly := do
  let scs ← (← getA j "scaffolds").mapM decScaffold
  let hdr := (getSL j "header").toOption.getD []
  pure { header := hdr, scaffolds := scs }

def hFormat (agp : Bool) (j : Json) : D Json := do
  let a ← decAssembly (← j.getObjVal? "asm")
  pure (encR (jarr jstr) (if agp then formatAgp a else formatTpf a))

def encStats (s : Stats) : Json :=
  Json.mkObj [("cuts", jint s.cuts), ("breaks", jint s.breaks), ("joins", jint s.joins),
    ("per_assembly", jarr (fun (p : Str × Int × Int) => Json.arr #[jstr p.1, jint p.2.1, jint p.2.2]) s.perAssembly)]

def encOutAsm (prefix_ : Str) (a : OutAsm) : Json :=
  Json.mkObj [("key", jopt jstr a.key), ("curated", Json.bool a.curated), ("scaffolds", jarr encScaffold a.scaffolds),
    ("chr_csv", jarr (fun (l : Str × Str × Bool) => Json.arr #[jstr l.1, jstr l.2.1, Json.bool l.2.2])
      (chromosomeNameCsv prefix_ a.scaffolds))]

def hRemap (j : Json) : D Json := do
  let input ← (← getA j "input").mapM decScaffold
  let ptx ← (← getA j "ptx").mapM decScaffold
  let prefix_ ← getS j "prefix"
  let jg ← match j.getObjVal? "join_gap" with
    | .ok Json.null => pure none
    | .ok g => do pure (some ({ length := ← getI g "len", gapType := ← getS g "type" } : Gap))
    | .error _ => pure none
  let bpt ← getS j "bpt"
  let r : R (List OutAsm × Stats) := do
    let err ← errLengthOfText bpt
    remap input ptx prefix_ jg err
  pure (encR (fun (p : List OutAsm × Stats) =>
    Json.mkObj [("assemblies", jarr (encOutAsm prefix_) p.1), ("stats", encStats p.2)]) r)

def encInfo (p : Str × FastaInfo) : Json :=
  Json.arr #[jstr p.1, jint p.2.length, jint p.2.fileOffset, jint p.2.rpl, jint p.2.mll]

def decIdx (j : Json) : D (List (Str × FastaInfo)) := do
  let a ← getA j "index"
  a.mapM (fun e => do
    let l ← e.getArr?
    let nm ← (l[0]!).getStr?
    pure (nm.toList, ({ length := ← (l[1]!).getInt?, fileOffset := ← (l[2]!).getInt?, rpl := ← (l[3]!).getInt?,
                         mll := ← (l[4]!).getInt? } : FastaInfo)))

def hIndexFasta (j : Json) : D Json := do
  let file ← getNL j "file"
  let bs ← getI j "bs"
  pure (encR (fun (st : IdxState) => Json.mkObj [("index", jarr encInfo st.idx), ("scaffolds", jarr encScaffold st.scaffolds),
    ("max_buffered", jnat st.maxBuffered)]) (indexFasta (bLines file) bs))

def hSeqBytes (j : Json) : D Json := do
  let file ← getNL j "file"
  let idx ← decIdx j
  let qs ← getA j "queries"
  let out ← qs.mapM (fun q => do
    let nm ← getS q "name"; let s ← getI q "s"; let e ← getI q "e"
    let r : R ReadLog := do let info ← getInfo idx nm; sequenceBytes file info s e
    pure (encR (fun (l : ReadLog) => Json.mkObj [("data", jarr jnat l.data), ("reads", jarr jint l.reads)]) r))
  pure (Json.arr out.toArray)

def hStream (j : Json) : D Json := do
  let file ← getNL j "file"
  let idx ← decIdx j
  let scs ← (← getA j "scaffolds").mapM decScaffold
  let bs ← getI j "bs"
  let w ← getI j "w"
  pure (encR (fun (l : StreamLog) => Json.mkObj [("out", jarr jnat l.out), ("chunks", jarr jnat l.chunkSizes),
    ("reads", jarr jint l.reads)]) (streamAssembly file idx bs w scs))

def hRevcomp (j : Json) : D Json := do
  let b ← getNL j "bytes"
  pure (Json.mkObj [("rc", jarr jnat (reverseComplement b)), ("table", jarr jnat ((List.range 256).map comp))])

def hIsSpace (j : Json) : D Json := do
  let lo ← getI j "lo"; let hi ← getI j "hi"
  -- code points in [lo, hi) that the model treats as whitespace
  let l := (List.range (hi - lo).toNat).filterMap (fun k =>
    let n := lo.toNat + k
    if (0xD800 ≤ n ∧ n ≤ 0xDFFF) then none
    else if isSpace (Char.ofNat n) then some n else none)
  pure (jarr jnat l)

def hPyInt (j : Json) : D Json := do
  let ss ← getSL j "strings"
  pure (jarr (fun s => encR jint (pyInt s)) ss)

def hMisc (j : Json) : D Json := do
  let names ← getSL j "names"
  pure (jarr (fun n => Json.mkObj [("hap_prefix", jopt jstr (hapPrefixOfName n)), ("asm_prefix", jopt jstr (asmPrefixOfName n)),
    ("chr_tag", Json.bool (isChrNameTag n)), ("header", jopt jstr (headerText n)), ("blank", Json.bool (isBlankLine n)),
    ("tpf_name", jopt (fun (t : Str × Str × Str) => Json.arr #[jstr t.1, jstr t.2.1, jstr t.2.2]) (tpfNameMatch n)),
    ("err_length", encR jint (errLengthOfText n)),
    ("gap_to_tpf", jstr (tpfGapTypeToText n)), ("gap_from_tpf", jstr (tpfGapTypeOfText n))]) names)


def hNamer (j : Json) : D Json := do
  let name ← getS j "name"
  let rows ← (← getA j "rows").mapM decRow
  let perms ← getA j "tag_orders"
  let out ← perms.mapM (fun pj => do
    let tags ← (← pj.getArr?).toList.mapM (fun v => do let s ← v.getStr?; pure s.toList)
    let n0 : Namer := { autosomePrefix := "SUPER_".toList }
    pure (encR (fun (n : Namer) => Json.mkObj [("name", jopt jstr n.currentScaffoldName), ("rank", jint n.currentRank),
      ("haplotype", jopt jstr n.currentHaplotype), ("target", Json.bool n.targetTags), ("primary", jopt jstr n.primaryHaplotype),
      ("lc", jarr (fun (p : Str × Str) => Json.arr #[jstr p.1, jstr p.2]) n.haplotypeLc)]) (makeScaffoldName n0 name rows tags)))
  pure (Json.mkObj [("fragment_tags", jarr jstr ({ name := name, rows := rows } : Scaffold).fragmentTags), ("results", Json.arr out.toArray)])

def hNameAssemblies (j : Json) : D Json := do
  let asms ← (← getA j "assemblies").mapM (fun a => do
    let scs ← (← getA a "scaffolds").mapM (fun v => do let s ← v.getStr?; pure ({ name := s.toList } : Scaffold))
    pure ({ key := ← getOptS a "key", curated := ← getB a "curated", scaffolds := scs } : OutAsm))
  let root ← getS j "root"
  let version ← getS j "version"
  let suffix ← getS j "suffix"
  pure (encR (jarr (fun (a : NamedAsm) => Json.mkObj [("key", jopt jstr a.key), ("name", jstr a.name), ("curated", Json.bool a.curated),
    ("scaffolds", jarr (fun (s : Scaffold) => jstr s.name) a.scaffolds), ("file", jstr (outputFileName a suffix))])) (nameAssemblies asms root version))

def hFai (j : Json) : D Json := do
  let lines ← getSL j "lines"
  let rows := (decIdx j).toOption.getD []
  pure (Json.mkObj [("load", encR (jarr encInfo) (loadIndex lines)), ("rows", jarr (fun e => jstr (faiRow e)) rows)])

/-- cold start followed by a warm start, composed in the model: `index_fasta_file`, then the `.fai` rows and the `.agp` text
    that `write_index` / `write_assembly` write, read back by `load_index` / `parse_agp` (C15/C17: warm = cold) -/
def hWarm (j : Json) : D Json := do
  let file ← getNL j "file"
  let bs ← getI j "bs"
  let path ← getS j "path"
  let r : R (IdxState × List (Str × FastaInfo) × Assembly) := do
    let st ← indexFasta (bLines file) bs
    let widx ← loadIndex (st.idx.map faiRow)
    let hdr := "Built from FASTA file '".toList ++ path ++ ['\'']
    let lines ← formatAgp { header := [hdr], scaffolds := st.scaffolds }
    let wasm ← parseAgp (pyLines lines.flatten)
    pure (st, widx, wasm)
  pure (encR (fun (x : IdxState × List (Str × FastaInfo) × Assembly) =>
    Json.mkObj [("cold_index", jarr encInfo x.1.idx), ("cold_scaffolds", jarr encScaffold x.1.scaffolds),
      ("warm_index", jarr encInfo x.2.1), ("warm_scaffolds", jarr encScaffold x.2.2.scaffolds), ("warm_header", jarr jstr x.2.2.header)]) r)

def encFileV (f : Cache.FileV) : Json := Json.arr #[jnat f.src, jnat f.written, jnat f.total, jnat f.mtime]

def encPC : Cache.PC → Json
  | .start => "start" | .statted _ => "statted" | .faiOk _ => "faiOk" | .bothOk => "bothOk"
  | .loadedFai _ => "loadedFai" | .index0 => "index0" | .readFasta _ => "readFasta"
  | .writingFai _ _ _ => "writingFai" | .faiClosed _ _ => "faiClosed" | .faiDone _ => "faiDone"
  | .writingAgp _ _ _ => "writingAgp" | .agpClosed _ _ => "agpClosed"
  | .done (.loaded a b) c => Json.mkObj [("done", "loaded"), ("fai", encFileV a), ("agp", encFileV b), ("content", jnat c)]
  | .done (.indexed c') c => Json.mkObj [("done", "indexed"), ("of", jnat c'), ("content", jnat c)]
  | .done .failed c => Json.mkObj [("done", "failed"), ("content", jnat c)]
  | .crashed => "crashed"

def decCacheOp (j : Json) : D Cache.Op := do
  let k ← getS j "op"
  match String.ofList k with
  | "tick" => pure .tick
  | "rewrite" => pure .rewriteFasta
  | "delfai" => pure .deleteFai
  | "delagp" => pure .deleteAgp
  | "spawn" => pure .spawn
  | "step" => pure (.step (← getI j "p").toNat)
  | "crash" => pure (.crash (← getI j "p").toNat)
  | o => throw s!"bad cache op {o}"

def hCache (j : Json) : D Json := do
  let atomic ← getB j "atomic"
  let ft ← getI j "fai_total"
  let at_ ← getI j "agp_total"
  let ops ← (← getA j "ops").mapM decCacheOp
  let rec go (s : Cache.State) (ops : List Cache.Op) (acc : List Json) : List Json :=
    match ops with
    | [] => acc.reverse
    | op :: rest =>
      let label := match op with
        | .step p => (match s.procs[p]? with | some pc => Cache.opLabel s pc | none => "none")
        | _ => "env"
      let s' := Cache.applyOp s op
      let snap := Json.mkObj [("label", Json.str label), ("clock", jnat s'.clock), ("fasta", Json.arr #[jnat s'.fastaContent, jnat s'.fastaMtime]),
        ("fai", jopt encFileV s'.fai), ("agp", jopt encFileV s'.agp), ("procs", jarr encPC s'.procs), ("safe", Json.bool (Cache.safe s'))]
      go s' rest (snap :: acc)
  pure (Json.arr (go (Cache.init atomic ft.toNat at_.toNat) ops []).toArray)

def hOutputs (j : Json) : D Json := do
  let clobber ← getB j "clobber"
  let existing ← getSL j "existing"
  let outs ← getSL j "outputs"
  let r := Outputs.runOutputs clobber (existing.map (fun p => (p, Outputs.Content.old))) outs
  pure (Json.mkObj [("exit", jnat r.exit), ("error_path", jopt jstr r.errorPath),
    ("fs", jarr (fun (p : Str × Outputs.Content) => Json.arr #[jstr p.1, Json.str (match p.2 with | .old => "old" | .new => "new")]) r.fs)])

/-- pathlib / `format_from_file_extn` / `parse_output_file` and the derived file names, on file NAMES (C16 plan model) -/
def hPathParse (j : Json) : D Json := do
  let names ← getSL j "names"
  pure (jarr (fun (n : Str) => Json.mkObj [
    ("suffix", jstr (pathSuffix n)), ("stem", jstr (pathStem n)),
    ("fmt", jopt (fun (f : Fmt) => jstr f.name) (formatFromExt (pathSuffix n) none)),
    ("parse", encR (fun (r : Fmt × Str × Str × Str) => Json.arr #[jstr r.1.name, jstr r.2.1, jstr r.2.2.1, jstr r.2.2.2]) (parseOutputFile n)),
    ("log", encR jstr (logFileName n)), ("yaml", encR jstr (infoYamlName n)), ("report", encR jstr (chrReportName n)),
    ("agp", encR jstr (agpBesideName n))]) names)

def decOutAsm (a : Json) : D OutAsm := do
  let scs ← (← getA a "scaffolds").mapM decScaffold
  pure { key := ← getOptS a "key", curated := ← getB a "curated", scaffolds := scs }

/-- the whole output plan of one `pretext-to-asm --output` run + what the info yaml and the chr_report csv say -/
def hCliPlan (j : Json) : D Json := do
  let outs ← (← getA j "assemblies").mapM decOutAsm
  let outName ← getS j "out"
  let writeLog ← getB j "write_log"
  let prefix_ ← getS j "prefix"
  let sj ← j.getObjVal? "stats"
  let per ← (← getA sj "per_assembly").mapM (fun v => do
    let a ← v.getArr?
    let nm ← (a[0]!).getStr?
    pure (nm.toList, ← (a[1]!).getInt?, ← (a[2]!).getInt?))
  let stats : Stats := { cuts := ← getI sj "cuts", breaks := ← getI sj "breaks", joins := ← getI sj "joins", perAssembly := per }
  let info := infoRecord stats outs
  let named : R (List NamedAsm) := do
    let (_, root, version, _) ← parseOutputFile outName
    let n ← nameAssemblies outs root version
    pure (namedDict n)
  let report := match named with
    | .ok n => chromosomesReport prefix_ n
    | .error _ => []
  pure (Json.mkObj [
    ("plan", encR (jarr jstr) (cliOutputPlan outName writeLog outs prefix_)),
    ("log_line", jstr (curationLogLine stats)),
    ("info", Json.mkObj [("assemblies", jarr (fun (p : Str × Int × Int) => Json.arr #[jstr p.1, jint p.2.1, jint p.2.2]) info.assemblies),
                         ("manual_breaks", jopt jint info.manualBreaks), ("manual_joins", jopt jint info.manualJoins),
                         ("manual_haplotig_removals", jint info.haplotigRemovals)]),
    ("report", jarr (fun (r : ReportRow) => Json.arr #[jstr r.assembly, jstr r.seqName, jstr r.chromosome, Json.bool r.localised,
                       jopt jstr r.pretextScaffold, jint r.length, jint r.lengthMinusGaps]) report)])

/-- the PretextView script model (spec side, Model/Pretext.lean): is the script well-formed, and which map does it denote -/
def hScript (j : Json) : D Json := do
  let input ← (← getA j "input").mapM decScaffold
  let sj ← j.getObjVal? "script"
  let scafs ← (← getA sj "scafs").mapM (fun v => do
    pure ({ present := ← getB v "present", T := (← getI v "T").toNat, cuts := ← getNL v "cuts" } : Pretext.ScafScript))
  let groups ← (← getA sj "groups").mapM (fun g => do
    let items ← (← getA g "items").mapM (fun v => do
      pure ({ sc := (← getI v "sc").toNat, k := (← getI v "k").toNat, minus := ← getB v "minus" } : Pretext.Placed))
    pure ({ items := items, painted := ← getB g "painted" } : Pretext.Group))
  let s : Pretext.Script := { p := (← getI sj "p").toNat, q := (← getI sj "q").toNat, scafs := scafs, groups := groups }
  pure (Json.mkObj [("wf", Json.bool (Pretext.wfScript input s)), ("err_len", jnat (Pretext.errLen s.p s.q)),
                    ("ptx", jarr encScaffold (Pretext.ptxOf input s))])

/-- one `asm-format` run (Model/AsmFormat.lean): options, input files (name, text), STDIN text → what was written, the overlap
    reports as printed to STDERR, the exception class -/
def hAsmFormat (j : Json) : D Json := do
  let fmtOf (s : Option Str) : Option Fmt := match s.map String.ofList with
    | some "AGP" => some .AGP | some "TPF" => some .TPF | some "FASTA" => some .FASTA | _ => none
  let outOf (s : Option Str) : Option OutFmt := match s.map String.ofList with
    | some "AGP" => some .AGP | some "TPF" => some .TPF | some "STR" => some .STR | some "REPR" => some .REPR | _ => none
  let o : AsmFormatOpts := { inputFormat := fmtOf (← getOptS j "input_format"), outputFile := ← getOptS j "output_file",
                             format := outOf (← getOptS j "format"), name := ← getOptS j "name", qcOverlaps := ← getB j "qc" }
  let files ← (← getA j "files").mapM (fun v => do pure ((← getS v "name"), (← getS v "text")))
  let stdin ← getS j "stdin"
  let r := asmFormatText o files stdin
  let reps := r.reports.map (fun p => match reportOverlapsText p.1 p.2 with | .ok t => jstr t | .error e => Json.str ("<" ++ e.name ++ ">"))
  pure (Json.mkObj [("written", jstr r.written), ("reports", Json.arr reps.toArray), ("error", jopt (fun (e : Err) => Json.str e.name) r.error)])

def dispatch (j : Json) : D Json := do
  let kind ← getS j "kind"
  match String.ofList kind with
  | "pred" => hPred j
  | "ovpairs" => hOvPairs j
  | "natkey" => hNatKey j
  | "sort" => hSort j
  | "lookup" => hLookup j
  | "ovops" => hOvOps j
  | "parse_agp" => hParse true j
  | "parse_tpf" => hParse false j
  | "format_agp" => hFormat true j
  | "format_tpf" => hFormat false j
  | "remap" => hRemap j
  | "index_fasta" => hIndexFasta j
  | "seqbytes" => hSeqBytes j
  | "stream" => hStream j
  | "revcomp" => hRevcomp j
  | "isspace" => hIsSpace j
  | "pyint" => hPyInt j
  | "misc" => hMisc j
  | "namer" => hNamer j
  | "name_assemblies" => hNameAssemblies j
  | "fai" => hFai j
  | "warm" => hWarm j
  | "cache" => hCache j
  | "outputs" => hOutputs j
  | "pathparse" => hPathParse j
  | "cliplan" => hCliPlan j
  | "script" => hScript j
  | "asmformat" => hAsmFormat j
  | k => throw s!"unknown kind {k}"

partial def loop (h : IO.FS.Stream) (out : IO.FS.Stream) : IO Unit := do
  let line ← h.getLine
  if line.isEmpty then return ()
  let reply := match Json.parse line with
    | .error e => Json.mkObj [("driver_error", Json.str e)]
    | .ok j =>
      let id := (j.getObjVal? "id").toOption.getD Json.null
      match dispatch j with
      | .ok r => Json.mkObj [("id", id), ("r", r)]
      | .error e => Json.mkObj [("id", id), ("driver_error", Json.str e)]
  out.putStrLn reply.compress
  out.flush
  loop h out

def main : IO Unit := do loop (← IO.getStdin) (← IO.getStdout)
